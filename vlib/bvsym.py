"""Engine B (DESIGN.md 2.3): path-merging symbolic interpreter of a small Python subset -> z3.

Values:
  concrete Python objects (ints, str, bytes, classes, functions ...)
  SInt(z3 Int)            mathematical ints (Python int semantics)
  SBool(z3 Bool)
  SBytes(z3 Seq(BitVec 8)) byte strings with symbolic length
  Python lists of the above (concrete length)
Control: straight-line code, if (merge), while/for (bounded unrolling with unwinding
assumption recorded), return / raise recorded as guarded outcomes.
"""
import ast, inspect, textwrap
import z3

BYTE = z3.BitVecSort(8)
BSEQ = z3.SeqSort(BYTE)


class EngineUnsupported(Exception):
    pass


class SInt:
    def __init__(self, e): self.e = e
class SBool:
    def __init__(self, e): self.e = e
class SBytes:
    def __init__(self, e): self.e = e


def zint(v):
    if isinstance(v, SInt): return v.e
    if isinstance(v, bool): return z3.IntVal(int(v))
    if isinstance(v, int): return z3.IntVal(v)
    raise EngineUnsupported(f"int expected: {v!r}")

def zbool(v):
    if isinstance(v, SBool): return v.e
    if isinstance(v, bool): return z3.BoolVal(v)
    if isinstance(v, SInt): return v.e != 0
    if isinstance(v, int): return z3.BoolVal(v != 0)
    if isinstance(v, SBytes): return z3.Length(v.e) != 0
    if isinstance(v, (bytes, list, str, tuple)): return z3.BoolVal(len(v) != 0)
    if v is None: return z3.BoolVal(False)
    raise EngineUnsupported(f"bool expected: {v!r}")

def zbytes(v):
    if isinstance(v, SBytes): return v.e
    if isinstance(v, (bytes, bytearray)):
        if len(v) == 0: return z3.Empty(BSEQ)
        units = [z3.Unit(z3.BitVecVal(b, 8)) for b in v]
        return units[0] if len(units) == 1 else z3.Concat(*units)
    raise EngineUnsupported(f"bytes expected: {v!r}")

def is_sym(v):
    return isinstance(v, (SInt, SBool, SBytes))


class Outcome:
    """guarded result of running a function: list of (guard, kind, value)"""
    def __init__(self): self.items = []
    def add(self, guard, kind, value): self.items.append((guard, kind, value))


class Raised(Exception):
    def __init__(self, exc): self.exc = exc


class Interp:
    def __init__(self, unroll=8):
        self.unroll = unroll
        self.assumptions = []      # unwinding / domain assumptions collected
        self.pending = []
        self.stubs = {}            # id(callable) or name -> python function(interp, *args)

    # ---- function execution -------------------------------------------------
    def run(self, fn, args, glb=None):
        src = textwrap.dedent(inspect.getsource(fn))
        fdef = ast.parse(src).body[0]
        env = dict(zip([a.arg for a in fdef.args.args], args))
        self.glb = dict(fn.__globals__) if glb is None else glb
        out = Outcome()
        self.exec_block(fdef.body, env, z3.BoolVal(True), out)
        return out

    # exec returns the guard under which control falls through
    def flush(self, guard):
        if self.pending:
            guard = z3.And(guard, z3.Not(z3.Or(*self.pending)))
            self.pending = []
        return guard

    def exec_block(self, stmts, env, guard, out):
        for s in stmts:
            guard = self.exec_stmt(s, env, guard, out)
            guard = self.flush(guard)
            if z3.is_false(z3.simplify(guard)):
                break
        return guard

    def exec_stmt(self, s, env, guard, out):
        if isinstance(s, ast.Expr):
            self.ev(s.value, env, guard, out); return guard
        if isinstance(s, ast.Pass):
            return guard
        if isinstance(s, ast.Assign):
            v = self.ev(s.value, env, guard, out)
            for t in s.targets: self.assign(t, v, env)
            return guard
        if isinstance(s, ast.AugAssign):
            cur = self.ev(ast.Name(s.target.id, ast.Load()) if isinstance(s.target, ast.Name) else s.target, env, guard, out)
            v = self.binop(s.op, cur, self.ev(s.value, env, guard, out))
            self.assign(s.target, v, env); return guard
        if isinstance(s, ast.Return):
            v = self.ev(s.value, env, guard, out) if s.value else None
            out.add(guard, "return", v); return z3.BoolVal(False)
        if isinstance(s, ast.Raise):
            exc = self.ev(s.exc, env, guard, out)
            out.add(guard, "raise", exc); return z3.BoolVal(False)
        if isinstance(s, ast.If):
            c = self.ev(s.test, env, guard, out)
            if not is_sym(c):
                return self.exec_block(s.body if c else s.orelse, env, guard, out)
            cz = zbool(c)
            e1, e2 = dict(env), dict(env)
            g1 = self.exec_block(s.body, e1, z3.And(guard, cz), out)
            g2 = self.exec_block(s.orelse, e2, z3.And(guard, z3.Not(cz)), out)
            self.merge(env, cz, e1, e2)
            return z3.Or(g1, g2)
        if isinstance(s, ast.While):
            exits = []   # (guard, env snapshot)
            for _ in range(self.unroll):
                c = self.ev(s.test, env, guard, out)
                guard = self.flush(guard)
                if not is_sym(c):
                    if not c:
                        exits.append((guard, dict(env))); guard = z3.BoolVal(False); break
                    guard = self.exec_block(s.body, env, guard, out); continue
                cz = zbool(c)
                exits.append((z3.And(guard, z3.Not(cz)), dict(env)))
                guard = self.exec_block(s.body, env, z3.And(guard, cz), out)
            else:
                c = self.ev(s.test, env, guard, out)
                guard = self.flush(guard)
                # unwinding assumption: after `unroll` iterations the loop condition is false
                self.assumptions.append(z3.Implies(guard, z3.Not(zbool(c))))
                exits.append((guard, dict(env)))
            # merge exit environments
            g_all, e_all = exits[-1]
            for g, e in reversed(exits[:-1]):
                merged = {}
                for k in set(e) | set(e_all):
                    a, b = e.get(k), e_all.get(k)
                    merged[k] = a if a is b else self.ite(g, a, b)
                e_all = merged; g_all = z3.Or(g, g_all)
            env.clear(); env.update(e_all)
            return g_all
        if isinstance(s, ast.For):
            it = self.ev(s.iter, env, guard, out)
            if is_sym(it): raise EngineUnsupported("symbolic iterable")
            for item in list(it):
                self.assign(s.target, item, env)
                guard = self.exec_block(s.body, env, guard, out)
            return guard
        if isinstance(s, ast.Try):
            # only: try: BODY except X as err: raise Y from err  (wrapping) -> map raises in body
            sub = Outcome()
            g = self.exec_block(s.body, env, guard, sub)
            for (gg, kind, val) in sub.items:
                if kind == "raise":
                    handled = False
                    for h in s.handlers:
                        et = self.ev(h.type, env, guard, out) if h.type is not None else Exception
                        if isinstance(val, BaseException) and isinstance(val, et):
                            e2 = dict(env)
                            if h.name: e2[h.name] = val
                            self.exec_block(h.body, e2, gg, out)
                            handled = True; break
                    if not handled: out.add(gg, kind, val)
                else:
                    out.add(gg, kind, val)
            return g
        raise EngineUnsupported(ast.dump(s)[:80])

    def merge(self, env, cz, e1, e2):
        for k in set(e1) | set(e2):
            if k == "__exits__":
                env[k] = e1.get(k, e2.get(k)); continue
            a, b = e1.get(k), e2.get(k)
            if a is b:
                env[k] = a; continue
            env[k] = self.ite(cz, a, b)

    def ite(self, cz, a, b):
        if isinstance(a, list) and isinstance(b, list) and len(a) == len(b):
            return [self.ite(cz, x, y) for x, y in zip(a, b)]
        if isinstance(a, (SBytes, bytes)) and isinstance(b, (SBytes, bytes)):
            return SBytes(z3.If(cz, zbytes(a), zbytes(b)))
        if isinstance(a, (SBool, bool)) and isinstance(b, (SBool, bool)):
            return SBool(z3.If(cz, zbool(a), zbool(b)))
        if isinstance(a, (SInt, int)) and isinstance(b, (SInt, int)):
            return SInt(z3.If(cz, zint(a), zint(b)))
        if a is None or b is None:
            return a if b is None else b   # variable defined on one arm only (guarded use)
        raise EngineUnsupported(f"cannot merge {a!r} / {b!r}")

    def assign(self, t, v, env):
        if isinstance(t, ast.Name): env[t.id] = v
        elif isinstance(t, ast.Tuple):
            for tt, vv in zip(t.elts, list(v)): self.assign(tt, vv, env)
        else: raise EngineUnsupported("assign target")

    # ---- expressions ---------------------------------------------------------
    def ev(self, e, env, guard, out):
        if isinstance(e, ast.Constant): return e.value
        if isinstance(e, ast.Name):
            if e.id in env: return env[e.id]
            if e.id in self.glb: return self.glb[e.id]
            import builtins
            return getattr(builtins, e.id)
        if isinstance(e, ast.Attribute):
            base = self.ev(e.value, env, guard, out)
            return getattr(base, e.attr)
        if isinstance(e, ast.BinOp):
            return self.binop(e.op, self.ev(e.left, env, guard, out), self.ev(e.right, env, guard, out))
        if isinstance(e, ast.UnaryOp):
            v = self.ev(e.operand, env, guard, out)
            if isinstance(e.op, ast.Not): return SBool(z3.Not(zbool(v))) if is_sym(v) else (not v)
            if isinstance(e.op, ast.USub): return SInt(-zint(v)) if is_sym(v) else -v
            raise EngineUnsupported("unary")
        if isinstance(e, ast.BoolOp):
            vals = [self.ev(x, env, guard, out) for x in e.values]   # (no short-circuit side effects in subset)
            if not any(is_sym(v) for v in vals):
                r = vals[0]
                for v in vals[1:]: r = (r and v) if isinstance(e.op, ast.And) else (r or v)
                return r
            zs = [zbool(v) for v in vals]
            return SBool(z3.And(*zs) if isinstance(e.op, ast.And) else z3.Or(*zs))
        if isinstance(e, ast.Compare):
            left = self.ev(e.left, env, guard, out)
            res = []
            for op, rx in zip(e.ops, e.comparators):
                right = self.ev(rx, env, guard, out)
                res.append(self.compare(op, left, right)); left = right
            if not any(is_sym(r) for r in res): return all(res)
            return SBool(z3.And(*[zbool(r) for r in res]))
        if isinstance(e, ast.Subscript):
            base = self.ev(e.value, env, guard, out)
            if isinstance(e.slice, ast.Slice):
                lo = self.ev(e.slice.lower, env, guard, out) if e.slice.lower else None
                hi = self.ev(e.slice.upper, env, guard, out) if e.slice.upper else None
                return self.slice(base, lo, hi)
            idx = self.ev(e.slice, env, guard, out)
            return self.index(base, idx, guard, out)
        if isinstance(e, ast.ListComp) and len(e.generators) == 1 and not e.generators[0].ifs:
            g = e.generators[0]
            it = self.ev(g.iter, env, guard, out)
            res = []
            for item in list(it):
                e2 = dict(env); self.assign(g.target, item, e2)
                res.append(self.ev(e.elt, e2, guard, out))
            return res
        if isinstance(e, ast.Tuple): return tuple(self.ev(x, env, guard, out) for x in e.elts)
        if isinstance(e, ast.List): return [self.ev(x, env, guard, out) for x in e.elts]
        if isinstance(e, ast.JoinedStr): return "<fstring>"
        if isinstance(e, ast.Yield):
            v = self.ev(e.value, env, guard, out) if e.value is not None else None
            env["__yields"] = list(env.get("__yields", [])) + [(guard, v)]
            return None
        if isinstance(e, ast.IfExp):
            c = self.ev(e.test, env, guard, out)
            if not is_sym(c):
                return self.ev(e.body if c else e.orelse, env, guard, out)
            return self.ite(zbool(c), self.ev(e.body, env, guard, out), self.ev(e.orelse, env, guard, out))
        if isinstance(e, ast.Call):
            fn = self.ev(e.func, env, guard, out)
            args = [self.ev(a, env, guard, out) for a in e.args]
            return self.call(fn, args, env, guard, out)
        raise EngineUnsupported(ast.dump(e)[:80])

    def binop(self, op, a, b):
        if not is_sym(a) and not is_sym(b) and not isinstance(a, list):
            import operator as o
            f = {ast.Add: o.add, ast.Sub: o.sub, ast.Mult: o.mul, ast.FloorDiv: o.floordiv, ast.Mod: o.mod,
                 ast.LShift: o.lshift, ast.RShift: o.rshift, ast.BitOr: o.or_, ast.BitAnd: o.and_, ast.BitXor: o.xor}[type(op)]
            return f(a, b)
        if isinstance(a, list) and isinstance(b, list) and isinstance(op, ast.Add): return a + b
        if isinstance(a, (SBytes, bytes)) and isinstance(b, (SBytes, bytes)) and isinstance(op, ast.Add):
            return SBytes(z3.Concat(zbytes(a), zbytes(b)))
        if isinstance(op, ast.Add): return SInt(zint(a) + zint(b))
        if isinstance(op, ast.Sub): return SInt(zint(a) - zint(b))
        if isinstance(op, ast.Mult): return SInt(zint(a) * zint(b))
        if isinstance(op, (ast.BitOr, ast.BitAnd, ast.BitXor, ast.LShift, ast.RShift)):
            W = 80
            ab, bb = z3.Int2BV(zint(a), W), z3.Int2BV(zint(b), W)
            r = {ast.BitOr: lambda: ab | bb, ast.BitAnd: lambda: ab & bb, ast.BitXor: lambda: ab ^ bb,
                 ast.LShift: lambda: ab << bb, ast.RShift: lambda: z3.LShR(ab, bb)}[type(op)]()
            return SInt(z3.BV2Int(r))   # valid for 0 <= operands < 2**80 (asserted by harness domain)
        raise EngineUnsupported(f"binop {op}")

    def compare(self, op, a, b):
        if not is_sym(a) and not is_sym(b):
            import operator as o
            f = {ast.Eq: o.eq, ast.NotEq: o.ne, ast.Lt: o.lt, ast.LtE: o.le, ast.Gt: o.gt, ast.GtE: o.ge}[type(op)]
            return f(a, b)
        if isinstance(a, (SBytes, bytes)) or isinstance(b, (SBytes, bytes)):
            eq = zbytes(a) == zbytes(b)
            return SBool(eq if isinstance(op, ast.Eq) else z3.Not(eq))
        if isinstance(a, (SBool,)) or isinstance(b, (SBool,)):
            eq = zbool(a) == zbool(b)
            return SBool(eq if isinstance(op, ast.Eq) else z3.Not(eq))
        x, y = zint(a), zint(b)
        return SBool({ast.Eq: x == y, ast.NotEq: x != y, ast.Lt: x < y, ast.LtE: x <= y, ast.Gt: x > y, ast.GtE: x >= y}[type(op)])

    def slice(self, base, lo, hi):
        if isinstance(base, list) and not is_sym(lo) and not is_sym(hi): return base[lo:hi]
        if isinstance(base, (SBytes, bytes)):
            s = zbytes(base); n = z3.Length(s)
            lo_z = zint(lo) if lo is not None else z3.IntVal(0)
            hi_z = zint(hi) if hi is not None else n
            # non-negative bounds only (subset)
            lo_c = z3.If(lo_z > n, n, lo_z); hi_c = z3.If(hi_z > n, n, hi_z)
            ln = z3.If(hi_c > lo_c, hi_c - lo_c, 0)
            return SBytes(z3.SubSeq(s, lo_c, ln))
        if not is_sym(base): return base[lo:hi]
        raise EngineUnsupported("slice")

    def index(self, base, idx, guard, out):
        if isinstance(base, (SBytes,)):
            s = base.e
            i = zint(idx)
            bad = z3.Or(i < 0, i >= z3.Length(s))
            out.add(z3.And(guard, bad), "raise", IndexError("index out of range")); self.pending.append(bad)
            return SInt(z3.BV2Int(s[i]))
        if not is_sym(base) and not is_sym(idx): return base[idx]
        raise EngineUnsupported("index")

    def call(self, fn, args, env, guard, out):
        key = getattr(fn, "__func__", fn)
        for k in (fn, key):
            try:
                if k in self.stubs: return self.stubs[k](self, guard, out, env, *args)
            except TypeError:
                pass
        if fn is len:
            (a,) = args
            return SInt(z3.Length(a.e)) if isinstance(a, SBytes) else len(a)
        if fn in (range, enumerate, reversed, list, tuple, zip) and not any(is_sym(a) for a in args):
            return list(fn(*args))
        if fn is bool:
            (a,) = args
            return SBool(zbool(a)) if is_sym(a) else bool(a)
        if isinstance(fn, type) and issubclass(fn, BaseException):
            return fn("<msg>")
        if not any(is_sym(a) or isinstance(a, list) for a in args) and not inspect.isfunction(key):
            return fn(*args)
        raise EngineUnsupported(f"call {fn!r}")


W = 72   # bit-vector width of BV mode (covers 64-bit hosts + shifts by <= 7 more)


class BVInterp(Interp):
    """bit-vector mode: SInt carries a BitVec(W); used for the bit-string kernels"""

    def zi(self, v):
        if isinstance(v, SInt):
            return v.e
        return z3.BitVecVal(int(v), W)

    def binop(self, op, a, b):
        if not is_sym(a) and not is_sym(b):
            return Interp.binop(self, op, a, b)
        if isinstance(a, list):
            return Interp.binop(self, op, a, b)
        x, y = self.zi(a), self.zi(b)
        r = {ast.Add: lambda: x + y, ast.Sub: lambda: x - y, ast.BitOr: lambda: x | y, ast.BitAnd: lambda: x & y,
             ast.BitXor: lambda: x ^ y, ast.LShift: lambda: x << y, ast.RShift: lambda: z3.LShR(x, y)}.get(type(op))
        if r is None:
            raise EngineUnsupported(f"bv binop {op}")
        return SInt(r())

    def ite(self, cz, a, b):
        if isinstance(a, (SInt, int)) and isinstance(b, (SInt, int)) and not isinstance(a, bool) and not isinstance(b, bool):
            return SInt(z3.If(cz, self.zi(a), self.zi(b)))
        return Interp.ite(self, cz, a, b)


def check(solver, timeout_ms=120000):
    """(verdict, seconds): verdict in unsat/sat/unknown"""
    import time
    solver.set("timeout", timeout_ms)
    t0 = time.time()
    r = solver.check()
    return str(r), time.time() - t0


def cross_check_z3_binary(solver, expect, timeout_s=60):
    """re-decide the exported SMT-LIB with /usr/bin/z3 4.8.12; returns None if agrees, else text"""
    import subprocess, tempfile, os
    smt = solver.to_smt2()
    with tempfile.NamedTemporaryFile("w", suffix=".smt2", delete=False, dir=os.environ.get("TMPDIR", "/tmp")) as f:
        f.write(smt)
        path = f.name
    try:
        p = subprocess.run(["/usr/bin/z3", f"-T:{timeout_s}", path], capture_output=True, text=True, timeout=timeout_s + 10)
        out = p.stdout.strip().splitlines()
        if any("(error" in l for l in out):
            return "error line from z3 4.8: " + out[0][:200]
        ans = out[0] if out else "none"
        if ans in ("timeout", "unknown"):
            return None   # the second solver is advisory only
        return None if ans == expect else f"z3 4.8.12 says {ans}, z3 5.1 says {expect}"
    except Exception as e:  # noqa
        return None
    finally:
        os.unlink(path)
