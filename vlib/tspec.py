"""Type-spec grammar for generated codec obligations (C06/C07/C08).

A spec describes a pycomm3 type built from the exported constructors together with how a
flat vector of symbolic ints is turned into a value of it, the value's documented domain,
and the *reference* wire bytes (vlib.ref.codec, independent of pycomm3).

  ("int", T)                 one int,   domain from the reference table by T's CIP code
  ("bool",)                  one int in {0,1}
  ("real", width)            one int = IEEE bit pattern
  ("str", T, n, char_w)      n code points (length n concrete), prefix width from T
  ("bytes", n)               n ints 0..255  -> n_bytes(n)
  ("struct", [(name, spec)])
  ("array", spec, n)         fixed length n
"""
import inspect
from vlib.ref import codec as R
from vlib.sym import mkfloat, same_float
import pycomm3.cip.data_types as dt


def int_info(T):
    """(width, signed) of an integer type from the REFERENCE table via its CIP code"""
    n, kind = R.CIP_TYPES[T.code]
    assert kind in ("u", "s"), T
    return n, kind == "s"


def nvars(spec):
    k = spec[0]
    if k in ("int", "bool", "real"):
        return 1
    if k == "str":
        return spec[2]
    if k == "bytes":
        return spec[1]
    if k == "struct":
        return sum(nvars(s) for _, s in spec[1])
    if k == "array":
        return spec[2] * nvars(spec[1])
    raise ValueError(spec)


def pytype(spec, name=None):
    """the pycomm3 type (class, or named instance when name is given)"""
    k = spec[0]
    if k == "int":
        T = spec[1]
    elif k == "bool":
        T = dt.BOOL
    elif k == "real":
        T = dt.REAL if spec[1] == 4 else dt.LREAL
    elif k == "str":
        T = spec[1]
    elif k == "bytes":
        inst = dt.n_bytes(spec[1], name or "")
        return inst if name is not None else type(inst)
    elif k == "struct":
        T = dt.Struct(*[pytype(s, n) for n, s in spec[1]])
    elif k == "array":
        T = dt.Array(spec[2], pytype(spec[1]))
    else:
        raise ValueError(spec)
    return T(name) if name is not None else T


def domain(spec, xs, i=0):
    """(ok, next index)"""
    k = spec[0]
    if k == "int":
        n, signed = int_info(spec[1])
        return R.in_domain(xs[i], n, signed), i + 1
    if k == "bool":
        return (xs[i] == 0 or xs[i] == 1), i + 1
    if k == "real":
        return (0 <= xs[i] < (1 << (8 * spec[1]))), i + 1
    if k == "str":
        hi = 1 << (8 * spec[3])
        ok = True
        for j in range(spec[2]):
            c = xs[i + j]
            ok = ok and 0 <= c < hi
            if spec[3] == 2:
                ok = ok and not (0xD800 <= c < 0xE000)
        return ok, i + spec[2]
    if k == "bytes":
        ok = True
        for j in range(spec[1]):
            ok = ok and 0 <= xs[i + j] < 256
        return ok, i + spec[1]
    if k == "struct":
        ok = True
        for _, s in spec[1]:
            o, i = domain(s, xs, i)
            ok = ok and o
        return ok, i
    if k == "array":
        ok = True
        for _ in range(spec[2]):
            o, i = domain(spec[1], xs, i)
            ok = ok and o
        return ok, i
    raise ValueError(spec)


def value(spec, xs, i=0, positional=False):
    """(python value to pass to encode, next index)"""
    k = spec[0]
    if k == "int":
        return xs[i], i + 1
    if k == "bool":
        return xs[i] == 1, i + 1
    if k == "real":
        return mkfloat(xs[i], spec[1]), i + 1
    if k == "str":
        return "".join(chr(xs[i + j]) for j in range(spec[2])), i + spec[2]
    if k == "bytes":
        return bytes([xs[i + j] for j in range(spec[1])]), i + spec[1]
    if k == "struct":
        out = [] if positional else {}
        for n, s in spec[1]:
            v, i = value(s, xs, i, positional)
            if positional:
                out.append(v)
            else:
                out[n] = v
        return out, i
    if k == "array":
        out = []
        for _ in range(spec[2]):
            v, i = value(spec[1], xs, i, positional)
            out.append(v)
        return out, i
    raise ValueError(spec)


def refbytes(spec, xs, i=0):
    """(reference wire bytes as list of ints, next index)"""
    k = spec[0]
    if k == "int":
        n, _ = int_info(spec[1])
        return R.le(xs[i], n), i + 1
    if k == "bool":
        return [255 * xs[i]], i + 1
    if k == "real":
        return R.le(xs[i], spec[1]), i + 1
    if k == "str":
        pw = {dt.SHORT_STRING: 1, dt.STRING: 2, dt.STRING2: 2, dt.LOGIX_STRING: 4}[spec[1]]
        return R.enc_string([xs[i + j] for j in range(spec[2])], pw, spec[3]), i + spec[2]
    if k == "bytes":
        return [xs[i + j] for j in range(spec[1])], i + spec[1]
    if k == "struct":
        out = []
        for _, s in spec[1]:
            b, i = refbytes(s, xs, i)
            out += b
        return out, i
    if k == "array":
        out = []
        for _ in range(spec[2]):
            b, i = refbytes(spec[1], xs, i)
            out += b
        return out, i
    raise ValueError(spec)


def same(spec, dec, xs, i=0):
    """does decoded value `dec` equal the value built from xs? -> (bool, next index)"""
    k = spec[0]
    if k == "int":
        return dec == xs[i], i + 1
    if k == "bool":
        return dec is (xs[i] == 1) or dec == (xs[i] == 1), i + 1
    if k == "real":
        return same_float(dec, xs[i], spec[1]), i + 1
    if k == "str":
        ok = isinstance(dec, str) and len(dec) == spec[2]
        if ok:
            for j in range(spec[2]):
                ok = ok and ord(dec[j]) == xs[i + j]
        return ok, i + spec[2]
    if k == "bytes":
        ok = len(dec) == spec[1]
        if ok:
            for j in range(spec[1]):
                ok = ok and dec[j] == xs[i + j]
        return ok, i + spec[1]
    if k == "struct":
        ok = isinstance(dec, dict) and len(dec) == len(spec[1])
        for n, s in spec[1]:
            if ok and n in dec:
                o, i = same(s, dec[n], xs, i)
                ok = ok and o
            else:
                ok = False
                i += nvars(s)
        return ok, i
    if k == "array":
        ok = isinstance(dec, list) and len(dec) == spec[2]
        for j in range(spec[2]):
            if ok:
                o, i = same(spec[1], dec[j], xs, i)
                ok = ok and o
            else:
                i += nvars(spec[1])
        return ok, i
    raise ValueError(spec)


def describe(spec):
    k = spec[0]
    if k == "int":
        return spec[1].__name__
    if k == "bool":
        return "BOOL"
    if k == "real":
        return "REAL" if spec[1] == 4 else "LREAL"
    if k == "str":
        return f"{spec[1].__name__}<{spec[2]}>"
    if k == "bytes":
        return f"BYTES<{spec[1]}>"
    if k == "struct":
        return "Struct(" + ",".join(f"{n}:{describe(s)}" for n, s in spec[1]) + ")"
    if k == "array":
        return f"{describe(spec[1])}[{spec[2]}]"


def vec_fn(k, body, name="h", extra=()):
    """function of k symbolic ints x0..x{k-1} (+ extra (name, annotation) params) calling body(xs, **extra)"""
    params = [inspect.Parameter(f"x{i}", inspect.Parameter.POSITIONAL_OR_KEYWORD, annotation=int) for i in range(k)]
    params += [inspect.Parameter(n, inspect.Parameter.POSITIONAL_OR_KEYWORD, annotation=a) for n, a in extra]
    enames = [n for n, _ in extra]

    def h(*args, **kw):
        vals = list(args)
        for p in params[len(vals):]:
            vals.append(kw[p.name])
        xs = vals[:k]
        ex = dict(zip(enames, vals[k:]))
        return body(xs, **ex)

    h.__name__ = name
    h.__signature__ = inspect.Signature(params, return_annotation=str)
    h.__annotations__ = {p.name: p.annotation for p in params}
    h.__annotations__["return"] = str
    return h


def vec_pre(k, pred, extra=()):
    enames = [n for n, _ in extra]

    def pre(**kw):
        xs = [kw[f"x{i}"] for i in range(k)]
        return pred(xs, **{n: kw[n] for n in enames})
    return pre


def refparse(spec, bs, xs, p=0, i=0):
    """parse the byte list `bs` from position p by the REFERENCE layout of `spec` and compare
    with the leaf values xs[i:]; linear arithmetic only.  -> (ok, next p, next i)"""
    k = spec[0]
    if k == "int":
        n, signed = int_info(spec[1])
        if p + n > len(bs):
            return False, p, i + 1
        return R.from_le(bs[p:p + n], signed) == xs[i], p + n, i + 1
    if k == "bool":
        if p + 1 > len(bs):
            return False, p, i + 1
        return bs[p] == 255 * xs[i], p + 1, i + 1
    if k == "real":
        n = spec[1]
        if p + n > len(bs):
            return False, p, i + 1
        return R.from_le(bs[p:p + n]) == xs[i], p + n, i + 1
    if k == "str":
        pw = {dt.SHORT_STRING: 1, dt.STRING: 2, dt.STRING2: 2, dt.LOGIX_STRING: 4}[spec[1]]
        cw, n = spec[3], spec[2]
        if p + pw + cw * n > len(bs):
            return False, p, i + n
        ok = R.from_le(bs[p:p + pw]) == n
        q = p + pw
        for j in range(n):
            ok = ok and R.from_le(bs[q:q + cw]) == xs[i + j]
            q += cw
        return ok, q, i + n
    if k == "bytes":
        n = spec[1]
        if p + n > len(bs):
            return False, p, i + n
        ok = True
        for j in range(n):
            ok = ok and bs[p + j] == xs[i + j]
        return ok, p + n, i + n
    if k == "struct":
        ok = True
        for _, s in spec[1]:
            o, p, i = refparse(s, bs, xs, p, i)
            ok = ok and o
        return ok, p, i
    if k == "array":
        ok = True
        for _ in range(spec[2]):
            o, p, i = refparse(spec[1], bs, xs, p, i)
            ok = ok and o
        return ok, p, i
    raise ValueError(spec)


def wire_len(spec):
    k = spec[0]
    if k == "int":
        return int_info(spec[1])[0]
    if k == "bool":
        return 1
    if k == "real":
        return spec[1]
    if k == "str":
        pw = {dt.SHORT_STRING: 1, dt.STRING: 2, dt.STRING2: 2, dt.LOGIX_STRING: 4}[spec[1]]
        return pw + spec[2] * spec[3]
    if k == "bytes":
        return spec[1]
    if k == "struct":
        return sum(wire_len(s) for _, s in spec[1])
    if k == "array":
        return spec[2] * wire_len(spec[1])


def refvalues(spec, bs, p=0):
    """REFERENCE decode: leaf values (list of ints) of `spec` read from byte list bs at p -> (values, next p).
    Only for specs without strings (fixed width)."""
    k = spec[0]
    if k == "int":
        n, signed = int_info(spec[1])
        return [R.from_le(bs[p:p + n], signed)], p + n
    if k == "bool":
        return [0 if bs[p] == 0 else 1], p + 1
    if k == "real":
        return [R.from_le(bs[p:p + spec[1]])], p + spec[1]
    if k == "bytes":
        return list(bs[p:p + spec[1]]), p + spec[1]
    if k == "struct":
        out = []
        for _, s in spec[1]:
            v, p = refvalues(s, bs, p)
            out += v
        return out, p
    if k == "array":
        out = []
        for _ in range(spec[2]):
            v, p = refvalues(spec[1], bs, p)
            out += v
        return out, p
    raise ValueError(spec)


def leaf_starts(spec, p=0, acc=None):
    """byte offsets (reference layout) at which a value starts: the only places where a decoder may
    report an empty buffer instead of a malformed one -> (set, end offset)"""
    if acc is None:
        acc = set()
    k = spec[0]
    if k in ("int", "bool", "real", "bytes"):
        acc.add(p)
        return acc, p + wire_len(spec)
    if k == "str":
        pw = {dt.SHORT_STRING: 1, dt.STRING: 2, dt.STRING2: 2, dt.LOGIX_STRING: 4}[spec[1]]
        acc.add(p)
        if spec[2]:
            acc.add(p + pw)
        return acc, p + wire_len(spec)
    if k == "struct":
        for _, s in spec[1]:
            _, p = leaf_starts(s, p, acc)
        return acc, p
    if k == "array":
        for _ in range(spec[2]):
            _, p = leaf_starts(spec[1], p, acc)
        return acc, p
    raise ValueError(spec)
