"""Reference SLC / MicroLogix data table behind 'Execute PCCC' (CIP class 0x67, service 0x4B).
DF1 manual 1770-RM516: protected typed logical read (FNC 0xA2) / masked write (FNC 0xAB) with three
address fields.  Independent of pycomm3."""
from vlib.ref import eip
from vlib.ref.eip import le, u16
from vlib.ref.logix import Target

FILE_TYPES = {0x89: ("N", 2), 0x85: ("B", 2), 0x86: ("T", 6), 0x87: ("C", 6), 0x84: ("S", 2), 0x8A: ("F", 4), 0x91: ("L", 4), 0x82: ("O", 2), 0x83: ("I", 2),
              0x8D: ("ST", 84), 0x8E: ("A", 2), 0x88: ("R", 6)}


class SlcTarget(Target):
    def __init__(self, files=None, **kw):
        super().__init__(**kw)
        self.files = files or {}      # (type letter, file number) -> list of bytes
        self.pccc_log = []            # (fnc, size, file number, type letter, element, sub element, mask, data)
        self.tns = []

    def execute(self, svc, segs, data, transport, cap, route=None):
        if svc == 0x4B and segs == [("logical", "class_id", 0x67), ("logical", "instance_id", 1)]:
            self.log.append((transport, svc, segs, data, route))
            return self.pccc(data)
        return super().execute(svc, segs, data, transport, cap, route)

    def pccc(self, d):
        if len(d) < 1 or d[0] != 7 or len(d) < 7 + 4:
            self.violations.append("PCCC: requestor id must be 7 bytes (length, vendor, serial)")
            return eip.cip_reply(0x4B, 0x13)
        rid = d[:7]
        cmd, sts, tns = d[7], d[8], d[9:11]
        self.tns.append(u16(d, 9))
        body = d[11:]

        def reply(status, payload=()):
            return eip.cip_reply(0x4B, 0, rid + [cmd + 0x40, status] + tns + list(payload))
        if cmd != 0x0F or sts != 0:
            return reply(0x10)
        if len(body) < 1:
            return reply(0x10)
        fnc = body[0]
        if fnc not in (0xA2, 0xAB):
            return reply(0x10)      # illegal command or format
        if len(body) < 6:
            self.violations.append("PCCC: typed logical command shorter than its address fields")
            return reply(0x10)
        size, fno, ftype, elem, sub = body[1:6]
        rest = body[6:]
        if ftype not in FILE_TYPES:
            return reply(0x10)
        letter, esize = FILE_TYPES[ftype]
        key = None
        for (l, n) in self.files:       # linear scan: the file number may be symbolic (a dict lookup would hash, i.e. enumerate it)
            if l == letter and n == fno:
                key = (l, n)
        if key is None:
            return reply(0x50)      # address problem
        mem = self.files[key]
        start = elem * esize + sub * 2
        if size == 0 or start + size > len(mem):
            return reply(0x50)
        if fnc == 0xA2:
            if rest:
                self.violations.append("PCCC read carries %d unexpected bytes" % len(rest))
            self.pccc_log.append(("read", size, fno, letter, elem, sub, None, None))
            return reply(0, mem[start:start + size])
        if len(rest) != 2 + size:
            self.violations.append("PCCC masked write: %d bytes after the address, expected mask (2) + %d data bytes" % (len(rest), size))
            return reply(0x10)
        mask, val = rest[:2], rest[2:]
        new = list(mem)
        for i in range(size):
            new[start + i] = _masked(mem[start + i], val[i], mask[i % 2])
        self.files[key] = new
        self.pccc_log.append(("write", size, fno, letter, elem, sub, list(mask), list(val)))
        return reply(0)


def _masked(old, val, mask):
    """(old & ~mask) | (val & mask) for one byte; linear in `old` when mask and val are concrete"""
    if type(mask) is int and not hasattr(mask, "var") and type(val) is int and not hasattr(val, "var"):
        if type(old) is int and not hasattr(old, "var"):
            return (old & (~mask & 0xFF)) | (val & mask)
        res = old
        for j in range(8):
            if (mask >> j) & 1:
                ob = (old // (1 << j)) % 2
                res = res + (((val >> j) & 1) - ob) * (1 << j)
        return res
    if type(mask) is int and not hasattr(mask, "var"):
        if mask == 0xFF:
            return val
        if mask == 0:
            return old
    out = 0
    for j in range(8):
        m = (mask // (1 << j)) % 2
        out = out + (m * ((val // (1 << j)) % 2) + (1 - m) * ((old // (1 << j)) % 2)) * (1 << j)
    return out
