"""Reference Logix controller ("target") behind the fake socket.

Written from the CIP spec (Vol 1 ch. 3 Connection Manager, Vol 2 encapsulation) and the
Logix 5000 Data Access manual (1756-PM020): symbol object, template object, Read/Write Tag
(+Fragmented), Read-Modify-Write, Multiple Service Packet, Get Instance Attribute List with
target-chosen pagination, template read with target-chosen fragment sizes, identity,
program name, wall clock, sessions, (large) Forward Open / Forward Close, Unconnected Send.
Shares no code with pycomm3.  All byte strings are lists of ints so that memory contents,
written values, ids and status bytes may be symbolic."""
from vlib.ref import eip
from vlib.ref import epath as EP
from vlib.ref.eip import le, u16, u32

ATOMIC_SIZE = {0xC1: 1, 0xC2: 1, 0xC3: 2, 0xC4: 4, 0xC5: 8, 0xC6: 1, 0xC7: 2, 0xC8: 4, 0xC9: 8, 0xCA: 4, 0xCB: 8, 0xD3: 4}
ATOMIC_NAME = {0xC1: "BOOL", 0xC2: "SINT", 0xC3: "INT", 0xC4: "DINT", 0xC5: "LINT", 0xC6: "USINT", 0xC7: "UINT", 0xC8: "UDINT",
               0xC9: "ULINT", 0xCA: "REAL", 0xCB: "LREAL", 0xD3: "DWORD"}


class Member:
    def __init__(self, name, typ, offset, array=0, bit=None):
        self.name, self.typ, self.offset, self.array, self.bit = name, typ, offset, array, bit
        # typ: atomic type code (int) or Template


class Template:
    def __init__(self, instance_id, name, size, members, handle=None):
        self.instance_id = instance_id          # 12-bit template instance id (0x100..0xEFF user defined)
        self.name = name
        self.size = size
        self.members = members
        self.handle = handle if handle is not None else (0x1000 + instance_id * 7) % 65536

    def member(self, name):
        for m in self.members:
            if m.name == name:
                return m
        return None

    def definition(self):
        """template read data: member info (8 bytes each) + 'Name;...\\0' + member names \\0-terminated"""
        out = []
        for m in self.members:
            info = m.bit if (m.typ == 0xC1 and m.bit is not None) else m.array
            code = m.typ if isinstance(m.typ, int) else (0x8000 + m.typ.instance_id)
            out += le(info, 2) + le(code, 2) + le(m.offset, 4)
        out += [ord(c) for c in self.name + ";n"] + [0]
        for m in self.members:
            out += [ord(c) for c in m.name] + [0]
        return out

    def object_definition_size(self):
        # 32-bit words; the manual: bytes to read = size*4 - 23
        return (len(self.definition()) + 23 + 3) // 4


class Symbol:
    def __init__(self, name, instance_id, typ, dims=(), mem=None, access=0, base=True, system=False, program=None, bit_position=0):
        self.name, self.instance_id, self.typ = name, instance_id, typ
        self.dims = list(dims)
        self.access, self.base, self.system, self.program = access, base, system, program
        self.bit_position = bit_position
        self.mem = mem if mem is not None else [0] * self.nbytes()

    def esize(self):
        return ATOMIC_SIZE.get(self.typ, 0) if isinstance(self.typ, int) else self.typ.size

    def count(self):
        n = 1
        for d in self.dims:
            n *= d
        return n

    def nbytes(self):
        return self.esize() * self.count()

    def symbol_type(self):
        if isinstance(self.typ, int):
            t = self.typ + (self.bit_position << 8 if self.typ == 0xC1 else 0)
        else:
            t = 0x8000 + self.typ.instance_id
        t += len(self.dims) << 13
        if self.system:
            t += 0x1000
        return t


class Violation(Exception):
    pass


class Runaway(Exception):
    """raised by the target when a scenario exceeds its frame budget (non-terminating client loop)"""


class Target:
    """one controller + its EtherNet/IP front end"""

    def __init__(self, symbols=(), templates=(), identity=None, program_name="PLC", revision_major=32, product_name="1756-L83E/B",
                 policy=None, page_sizes=None, frag_cap=None, template_frag=None, conn_serial=None):
        self.symbols = list(symbols)
        self.templates = {t.instance_id: t for t in templates}
        self.program_name = program_name
        self.identity = identity or {"vendor": 1, "product_type": 14, "product_code": 166, "major": revision_major, "minor": 11,
                                     "status": [0x60, 0x31], "serial": 0x00C0FFEE, "product_name": product_name}
        self.policy = dict({"session": True, "large_fo": True, "fo": True}, **(policy or {}))
        self.page_sizes = page_sizes        # list: symbols per Get Instance Attribute List reply (then unlimited)
        self.frag_cap = frag_cap            # max data bytes per fragmented-read reply (None: what fits the connection)
        self.template_frag = template_frag  # max bytes per template-read reply
        self.next_session = 0x11223344
        self.sessions = []
        self.connections = {}               # tuple(cid) -> {"size":, "serial": (csn, vid, vsn), "last_seq": None}
        self.next_cid = [0x01, 0x02, 0x03, 0x04]
        self.clock_us = 1_600_000_000_000_000
        self.clock_bytes = None
        self.log = []                       # (transport, service, segments, data)  transport in "ucmm","ucsend","connected"
        self.violations = []                # protocol violations by the client (strings)
        self.frames = 0
        self.seqs = []                      # sequence counts of connected requests in arrival order
        self.writes = []                    # (tag name, byte offset, [bytes]) applied
        self.page_i = 0
        self.reachable = True
        self.max_frames = 1500
        self.generic_hook = None            # optional: fn(service, segments, data, transport) -> CIP reply bytes or None

    # ------------------------------------------------------------------ encapsulation
    def handle(self, frame):
        """frame: bytes from the client -> reply bytes (list of ints) or None (no reply)"""
        self.frames += 1
        if self.frames > self.max_frames:
            raise Runaway("the client sent more than %d frames in one scenario: it does not terminate" % self.max_frames)
        try:
            req = eip.parse_request(frame)
        except eip.FrameError as e:
            self.violations.append("malformed frame: " + str(e))
            return eip.reply_error(frame[0] if len(frame) else 0, 0, 0x03)   # incorrect data
        cmd, ctx = req["command"], req["context"]
        if cmd == eip.CMD_REGISTER:
            if not self.policy["session"]:
                return eip.reply_error(cmd, 0, 0x69, ctx)    # unsupported protocol version
            s = self.next_session
            self.next_session += 1
            self.sessions.append(s)
            return eip.reply_register(s, ctx)
        if cmd == eip.CMD_LIST_IDENTITY:
            return eip.reply_list_identity(self.identity_item(), ctx)
        if cmd == eip.CMD_UNREGISTER:
            if req["session"] in self.sessions:
                self.sessions.remove(req["session"])
                for cid in [c for c, v in self.connections.items() if v["session"] == req["session"]]:
                    del self.connections[cid]     # closing the session releases its connections
            return None
        if cmd in (eip.CMD_RR, eip.CMD_UNIT):
            if req["session"] not in self.sessions:
                if cmd == eip.CMD_UNIT:
                    self.violations.append("connected message without a registered session")
                return eip.reply_error(cmd, req["session"], 0x64, ctx)    # invalid session handle
            if cmd == eip.CMD_RR:
                return eip.reply_rr(req["session"], self.ucmm(req["cip"], req["session"]), ctx)
            cid = tuple(req["cid"])
            if cid not in self.connections:
                self.violations.append("connected message on a connection that is not open")
                return eip.reply_error(cmd, req["session"], 0x03, ctx)
            conn = self.connections[cid]
            if len(req["cip"]) > conn["size"]:
                self.violations.append("connected request of %d bytes exceeds the connection size %d" % (len(req["cip"]), conn["size"]))
            self.seqs.append(req["seq"])
            if conn["last_seq"] is not None and conn["last_seq"] == req["seq"]:
                self.violations.append("duplicate sequence count")
                return eip.reply_unit(req["session"], conn["o_t_cid"], req["seq"], conn["last_reply"], ctx)
            conn["last_seq"] = req["seq"]
            rep = self.route(req["cip"], "connected", cap=conn["size"])
            if len(rep) > conn["size"]:
                self.violations.append("request solicits a reply of %d bytes, larger than the connection size %d" % (len(rep), conn["size"]))
            conn["last_reply"] = rep
            return eip.reply_unit(req["session"], conn["o_t_cid"], req["seq"], rep, ctx)
        return eip.reply_error(cmd, req.get("session", 0), 0x01, ctx)

    def identity_bytes(self):
        i = self.identity
        return (le(i["vendor"], 2) + le(i["product_type"], 2) + le(i["product_code"], 2) + [i["major"], i["minor"]] + list(i["status"])
                + le(i["serial"], 4) + [len(i["product_name"])] + [ord(c) if isinstance(c, str) else c for c in i["product_name"]])

    def identity_item(self):
        body = le(1, 2) + [0x00, 0x02, 0xAF, 0x12] + list(self.identity.get("ip", [192, 168, 1, 10])) + [0] * 8 + self.identity_bytes() + [self.identity.get("state", 3)]
        return le(0x0C, 2) + le(len(body), 2) + body

    # ------------------------------------------------------------------ UCMM / connection manager
    def ucmm(self, cip, session):
        req = self.parse_cip(cip)
        if req is None:
            return eip.cip_reply(cip[0] if cip else 0, 0x04)
        svc, segs, data = req
        if segs[:2] == [("logical", "class_id", 0x06), ("logical", "instance_id", 1)] and len(segs) == 2:
            if svc in (0x54, 0x5B):
                return self.forward_open(svc, data, session)
            if svc == 0x4E:
                return self.forward_close(data)
            if svc == 0x52:
                return self.unconnected_send(data)
        return self.execute(svc, segs, data, "ucmm", cap=504)

    def parse_cip(self, cip):
        if len(cip) < 2:
            self.violations.append("CIP request shorter than service + path size")
            return None
        try:
            segs, used = EP.parse_path(cip[1:])
        except EP.RefError as e:
            self.violations.append("malformed request path: " + str(e))
            return None
        return cip[0], segs, cip[1 + used:]

    def forward_open(self, svc, d, session):
        large = svc == 0x5B
        need = 40 if large else 36
        if len(d) < need + 1:
            self.violations.append("Forward Open request too short")
            return eip.cip_reply(svc, 0x13)
        csn, vid, vsn = d[10:12], d[12:14], d[14:18]
        p = 26
        if large:
            ot_par = u32(d, p)
            size = ot_par % 65536
            to_par = u32(d, p + 8)
            fixed_var = (ot_par // (1 << 25)) % 2
            p_end = p + 12
        else:
            ot_par = u16(d, p)
            size = ot_par % 512
            to_par = u16(d, p + 6)
            fixed_var = (ot_par // 512) % 2
            p_end = p + 8
        if to_par != ot_par:
            self.violations.append("O->T and T->O network parameters differ")
        if d[p_end] != 0xA3:
            self.violations.append("transport class/trigger is not 0xA3 (class 3, application trigger, server)")
        try:
            route, used = EP.parse_path(d[p_end + 1:])
            if used != len(d) - p_end - 1:
                self.violations.append("trailing bytes after the Forward Open connection path")
        except EP.RefError as e:
            self.violations.append("malformed Forward Open connection path: " + str(e))
            return eip.cip_reply(svc, 0x01, ext=[0x0315])
        if route[-2:] != [("logical", "class_id", 2), ("logical", "instance_id", 1)]:
            self.violations.append("Forward Open path does not end at the message router")
        ok = self.policy["fo"] and (self.policy["large_fo"] or not large)
        if not ok:
            # failure reply: csn, vid, vsn, remaining path size, reserved
            return eip.cip_reply(svc, 0x01, csn + vid + vsn + [0, 0], ext=[0x0109 if large else 0x0113])
        if (large and size > 4002) or (not large and size > 511):
            self.violations.append("connection size out of range")
        cid = list(self.next_cid)
        self.next_cid = [(cid[0] + 1) % 256] + cid[1:]
        self.connections[tuple(cid)] = {"size": size, "serial": (tuple(csn), tuple(vid), tuple(vsn)), "last_seq": None, "last_reply": None,
                                        "o_t_cid": d[6:10], "large": large, "session": session, "route": route[:-2]}
        return eip.cip_reply(svc, 0, cid + d[6:10] + csn + vid + vsn + d[22:26] + d[22:26] + [0, 0])

    def forward_close(self, d):
        if len(d) < 10:
            self.violations.append("Forward Close request too short")
            return eip.cip_reply(0x4E, 0x13)
        key = (tuple(d[2:4]), tuple(d[4:6]), tuple(d[6:10]))
        try:
            route, used = EP.parse_path(d[10:], pad_len=True)
        except EP.RefError as e:
            self.violations.append("malformed Forward Close connection path: " + str(e))
            return eip.cip_reply(0x4E, 0x01, ext=[0x0315])
        for cid, c in list(self.connections.items()):
            if c["serial"] == key:
                del self.connections[cid]
                return eip.cip_reply(0x4E, 0, d[2:10] + [0, 0])
        return eip.cip_reply(0x4E, 0x01, ext=[0x0107])     # connection not found

    def unconnected_send(self, d):
        if len(d) < 4:
            self.violations.append("Unconnected Send too short")
            return eip.cip_reply(0x52, 0x13)
        mlen = u16(d, 2)
        p = 4 + mlen
        if len(d) < p:
            self.violations.append("Unconnected Send embedded length exceeds data")
            return eip.cip_reply(0x52, 0x13)
        msg = d[4:p]
        if mlen % 2:
            if len(d) <= p or d[p] != 0:
                self.violations.append("Unconnected Send: odd message without zero pad byte")
            p += 1
        try:
            route, used = EP.parse_path(d[p:], pad_len=True)
            if p + used != len(d):
                self.violations.append("Unconnected Send: trailing bytes after the route path")
        except EP.RefError as e:
            self.violations.append("Unconnected Send: malformed route path: " + str(e))
            return eip.cip_reply(0x52, 0x04)
        req = self.parse_cip(msg)
        if req is None:
            return eip.cip_reply(msg[0] if msg else 0, 0x04)
        self.last_route = route
        return self.execute(req[0], req[1], req[2], "ucsend", cap=504, route=route)

    # ------------------------------------------------------------------ message router
    def route(self, cip, transport, cap):
        req = self.parse_cip(cip)
        if req is None:
            return eip.cip_reply(cip[0] if cip else 0, 0x04)
        return self.execute(req[0], req[1], req[2], transport, cap)

    def execute(self, svc, segs, data, transport, cap, route=None):
        self.log.append((transport, svc, segs, data, route))
        if self.generic_hook is not None:
            r = self.generic_hook(svc, segs, data, transport)
            if r is not None:
                return r
        if not segs:
            return eip.cip_reply(svc, 0x04)
        head = segs[0]
        if head == ("logical", "class_id", 0x02) and svc == 0x0A:
            return self.multi(segs, data, transport, cap)
        if head == ("logical", "class_id", 0x01):
            if svc == 0x01 and segs[1:] == [("logical", "instance_id", 1)]:
                return eip.cip_reply(svc, 0, self.identity_bytes())
            return eip.cip_reply(svc, 0x08)
        if head == ("logical", "class_id", 0x64):
            if svc == 0x01 and segs[1:] == [("logical", "instance_id", 1)]:
                return eip.cip_reply(svc, 0, le(len(self.program_name), 2) + [ord(c) for c in self.program_name])
            return eip.cip_reply(svc, 0x08)
        if head == ("logical", "class_id", 0x8B):
            return self.wall_clock(svc, segs, data)
        if head == ("logical", "class_id", 0x6C):
            return self.template_service(svc, segs, data, cap)
        if svc == 0x55:
            return self.symbol_list(segs, data, cap)
        if svc in (0x4C, 0x52, 0x4D, 0x53, 0x4E):
            return self.tag_service(svc, segs, data, cap)
        return eip.cip_reply(svc, 0x08)     # service not supported

    def multi(self, segs, data, transport, cap):
        if segs != [("logical", "class_id", 2), ("logical", "instance_id", 1)]:
            return eip.cip_reply(0x0A, 0x05)
        if len(data) < 2:
            return eip.cip_reply(0x0A, 0x13)
        n = u16(data, 0)
        if len(data) < 2 + 2 * n or n == 0:
            self.violations.append("multiple service packet: bad service count")
            return eip.cip_reply(0x0A, 0x13)
        offs = [u16(data, 2 + 2 * i) for i in range(n)]
        if offs[0] != 2 + 2 * n:
            self.violations.append("multiple service packet: first offset does not follow the offset list")
        reps = []
        anyerr = False
        for i in range(n):
            a = offs[i]
            b = offs[i + 1] if i + 1 < n else len(data)
            if not (a < b <= len(data)):
                self.violations.append("multiple service packet: offsets not increasing / beyond data")
                return eip.cip_reply(0x0A, 0x13)
            r = self.route(data[a:b], transport, cap)
            if r[2] != 0:
                anyerr = True
            reps.append(r)
        out = le(n, 2)
        off = 2 + 2 * n
        for r in reps:
            out += le(off, 2)
            off += len(r)
        for r in reps:
            out += r
        return eip.cip_reply(0x0A, 0x1E if anyerr else 0, out)

    def wall_clock(self, svc, segs, data):
        if segs[1:] != [("logical", "instance_id", 1)]:
            return eip.cip_reply(svc, 0x05)
        if svc == 0x03:     # get attribute list
            if data != [1, 0, 0x0B, 0]:
                return eip.cip_reply(svc, 0x09)
            return eip.cip_reply(svc, 0, [1, 0, 0x0B, 0, 0, 0] + (list(self.clock_bytes) if self.clock_bytes is not None else le(self.clock_us, 8)))
        if svc == 0x04:     # set attribute list: count, attr 6, ULINT microseconds
            if len(data) != 12 or data[:4] != [1, 0, 6, 0]:
                self.violations.append("set wall clock: malformed attribute list")
                return eip.cip_reply(svc, 0x13)
            self.clock_us = sum(data[4 + i] * (1 << (8 * i)) for i in range(8))
            self.clock_bytes = list(data[4:12])
            return eip.cip_reply(svc, 0, [1, 0, 6, 0, 0, 0])
        return eip.cip_reply(svc, 0x08)

    # ------------------------------------------------------------------ symbol / template upload
    def visible_symbols(self, program):
        return sorted([s for s in self.symbols if s.program == program], key=lambda s: s.instance_id)

    def symbol_list(self, segs, data, cap):
        program = None
        if segs and segs[0][0] == "symbol":
            program = "".join(chr(c) for c in segs[0][1])
            if not program.startswith("Program:") or program[8:] not in [s.name[8:] for s in self.symbols if s.name.startswith("Program:")]:
                return eip.cip_reply(0x55, 0x05)
            program = program[8:]
            segs = segs[1:]
        if len(segs) != 2 or segs[0] != ("logical", "class_id", 0x6B) or segs[1][:2] != ("logical", "instance_id"):
            return eip.cip_reply(0x55, 0x05)
        start = segs[1][2]
        n = u16(data, 0) if len(data) >= 2 else 0
        attrs = [u16(data, 2 + 2 * i) for i in range(n)] if len(data) == 2 + 2 * n else None
        if attrs is None:
            self.violations.append("get instance attribute list: malformed attribute list")
            return eip.cip_reply(0x55, 0x13)
        todo = [s for s in self.visible_symbols(program) if s.instance_id >= start]
        limit = None
        if self.page_sizes is not None and self.page_i < len(self.page_sizes):
            limit = self.page_sizes[self.page_i]
        self.page_i += 1
        out = []
        k = 0
        for s in todo:
            rec = le(s.instance_id, 4)
            for a in attrs:
                if a == 1:
                    rec += le(len(s.name), 2) + [ord(c) for c in s.name]
                elif a == 2:
                    rec += le(s.symbol_type(), 2)
                elif a == 3:
                    rec += le(0x1000 + s.instance_id, 4)
                elif a == 5:
                    rec += le(0x2000 + s.instance_id, 4)
                elif a == 6:
                    rec += le((1 << 26) if s.base else 0, 4)
                elif a == 8:
                    d = (s.dims + [0, 0, 0])[:3]
                    rec += le(d[0], 4) + le(d[1], 4) + le(d[2], 4)
                elif a == 10:
                    rec += [s.access]
                else:
                    return eip.cip_reply(0x55, 0x09)
            if (limit is not None and k >= limit) or len(out) + len(rec) + 4 > cap:
                return eip.cip_reply(0x55, 0x06, out)
            out += rec
            k += 1
        return eip.cip_reply(0x55, 0, out)

    def template_service(self, svc, segs, data, cap):
        if len(segs) != 2 or segs[1][:2] != ("logical", "instance_id") or segs[1][2] not in self.templates:
            return eip.cip_reply(svc, 0x05)
        t = self.templates[segs[1][2]]
        if svc == 0x03:
            if data != [4, 0, 4, 0, 5, 0, 2, 0, 1, 0]:
                return eip.cip_reply(svc, 0x09)
            return eip.cip_reply(svc, 0, [4, 0] + [4, 0, 0, 0] + le(t.object_definition_size(), 4) + [5, 0, 0, 0] + le(t.size, 4)
                                 + [2, 0, 0, 0] + le(len(t.members), 2) + [1, 0, 0, 0] + le(t.handle, 2))
        if svc == 0x4C:
            if len(data) != 6:
                self.violations.append("template read: request data must be offset (4) + size (2)")
                return eip.cip_reply(svc, 0x13)
            off, want = u32(data, 0), u16(data, 4)
            raw = t.definition()
            if off > len(raw):
                return eip.cip_reply(svc, 0xFF, ext=[0x2105])
            n = min(want, len(raw) - off, cap - 4)
            if self.template_frag is not None:
                n = min(n, self.template_frag)
            more = off + n < len(raw) and n < want
            return eip.cip_reply(svc, 0x06 if more else 0, raw[off:off + n])
        return eip.cip_reply(svc, 0x08)

    # ------------------------------------------------------------------ tag services
    def find_symbol(self, name, program=None):
        for s in self.symbols:
            if s.name == name and s.program == program:
                return s
        return None

    def resolve(self, segs):
        """-> (symbol, type, byte offset, elements available, bit (for BOOL members) ) or an error status"""
        i = 0
        program = None
        if segs[0][0] == "symbol":
            name = "".join(chr(c) for c in segs[0][1])
            if name.startswith("Program:"):
                program = name[8:]
                i = 1
                if len(segs) < 2 or segs[1][0] != "symbol":
                    return 0x05
                name = "".join(chr(c) for c in segs[1][1])
            sym = self.find_symbol(name, program)
            i += 1
        elif segs[0] == ("logical", "class_id", 0x6B) and len(segs) >= 2 and segs[1][:2] == ("logical", "instance_id"):
            sym = None
            for s in self.symbols:
                if s.program is None and s.instance_id == segs[1][2]:
                    sym = s
            i = 2
        else:
            return 0x05
        if sym is None or sym.system:
            return 0x04
        typ, dims, off = sym.typ, list(sym.dims), 0
        bit = None
        while True:
            # array indices
            idx = []
            while i < len(segs) and segs[i][:2] == ("logical", "member_id"):
                idx.append(segs[i][2])
                i += 1
            avail = 1
            for d in dims:
                avail *= d
            esize = ATOMIC_SIZE[typ] if isinstance(typ, int) else typ.size
            if idx:
                if len(idx) != len(dims):
                    return 0x05
                lin = 0
                for k in range(len(dims)):
                    if not (0 <= idx[k] < dims[k]):
                        return (0xFF, 0x2105)
                    lin = lin * dims[k] + idx[k]
                off += lin * esize
                avail -= lin
                if i < len(segs):
                    dims = []
                    avail = 1
            if i >= len(segs):
                break
            if segs[i][0] != "symbol" or isinstance(typ, int) or dims:
                return 0x05
            m = typ.member("".join(chr(c) for c in segs[i][1]))
            if m is None:
                return 0x04
            i += 1
            off += m.offset
            typ = m.typ
            dims = [m.array] if m.array else []
            bit = m.bit if (m.typ == 0xC1 and m.bit is not None) else None
        return sym, typ, off, avail, bit

    def type_header(self, typ):
        if isinstance(typ, int):
            return [typ, 0]
        return [0xA0, 0x02] + le(typ.handle, 2)

    def tag_service(self, svc, segs, data, cap):
        r = self.resolve(segs)
        if not isinstance(r, tuple) or len(r) != 5:
            if isinstance(r, tuple):
                return eip.cip_reply(svc, r[0], ext=[r[1]])
            return eip.cip_reply(svc, r)
        sym, typ, off, avail, bit = r
        esize = ATOMIC_SIZE[typ] if isinstance(typ, int) else typ.size
        hdr = self.type_header(typ)
        if svc in (0x4C, 0x52):
            need = 2 if svc == 0x4C else 6
            if len(data) != need:
                self.violations.append("read request data has %d bytes, expected %d" % (len(data), need))
                return eip.cip_reply(svc, 0x13 if len(data) < need else 0x15)
            n = u16(data, 0)
            if n < 1 or n > avail:
                return eip.cip_reply(svc, 0xFF, ext=[0x2105])
            if bit is not None:
                if n != 1:
                    return eip.cip_reply(svc, 0xFF, ext=[0x2105])
                b = sym.mem[off]
                return eip.cip_reply(svc, 0, hdr + [255 * ((b // (1 << bit)) % 2)])
            total = n * esize
            start = u32(data, 2) if svc == 0x52 else 0
            if start > total:
                return eip.cip_reply(svc, 0xFF, ext=[0x2105])
            room = cap - 4 - len(hdr)
            if svc == 0x52 and self.frag_cap is not None:
                room = min(room, self.frag_cap)
            if svc == 0x52 and room >= esize and isinstance(typ, int):
                room -= room % esize       # fragments of atomic arrays end on element boundaries
            n_bytes = min(total - start, room)
            more = start + n_bytes < total
            if more and svc == 0x4C:
                self.violations.append("Read Tag reply of %d data bytes does not fit the connection (needs the fragmented service)" % total)
            return eip.cip_reply(svc, 0x06 if more else 0, hdr + sym.mem[off + start:off + start + n_bytes])
        if svc in (0x4D, 0x53):
            hl = len(hdr)
            need = hl + 2 + (4 if svc == 0x53 else 0)
            if len(data) < need:
                self.violations.append("write request shorter than its fixed fields")
                return eip.cip_reply(svc, 0x13)
            if data[:hl] != hdr and not (isinstance(typ, int) and typ == 0xC1 and data[0] == 0xC1):
                return eip.cip_reply(svc, 0xFF, ext=[0x2107])    # data type mismatch
            n = u16(data, hl)
            if n < 1 or n > avail:
                return eip.cip_reply(svc, 0xFF, ext=[0x2105])
            total = n * esize
            if svc == 0x4D:
                val = data[hl + 2:]
                if len(val) < total:
                    return eip.cip_reply(svc, 0x13)
                if len(val) > total:
                    self.violations.append("write request carries %d bytes after the %d-byte value" % (len(val) - total, total))
                    return eip.cip_reply(svc, 0x15)
                start = 0
            else:
                start = u32(data, hl + 2)
                val = data[hl + 6:]
                if start + len(val) > total or len(val) == 0:
                    self.violations.append("write fragment [%d, %d) outside the %d-byte value" % (start, start + len(val), total))
                    return eip.cip_reply(svc, 0x15)
            if bit is not None:
                b = sym.mem[off]
                has = (b // (1 << bit)) % 2
                newb = b - has * (1 << bit) + (0 if val[0] == 0 else (1 << bit))
                sym.mem = sym.mem[:off] + [newb] + sym.mem[off + 1:]
                self.writes.append((sym.name, off, [newb], "bit"))
            else:
                sym.mem = sym.mem[:off + start] + list(val) + sym.mem[off + start + len(val):]
                self.writes.append((sym.name, off + start, list(val), "frag" if svc == 0x53 else "write"))
            return eip.cip_reply(svc, 0)
        if svc == 0x4E:
            if not isinstance(typ, int) or typ in (0xCA, 0xCB, 0xC1) or len(data) < 2:
                return eip.cip_reply(svc, 0xFF, ext=[0x2107])
            ms = u16(data, 0)
            if ms != esize:
                self.violations.append("read-modify-write mask size %d != tag width %d" % (ms, esize))
                return eip.cip_reply(svc, 0x03)
            if len(data) != 2 + 2 * ms:
                self.violations.append("read-modify-write data has %d bytes, expected %d (size + OR mask + AND mask)" % (len(data), 2 + 2 * ms))
                return eip.cip_reply(svc, 0x13 if len(data) < 2 + 2 * ms else 0x15)
            orm, andm = data[2:2 + ms], data[2 + ms:2 + 2 * ms]
            new = []
            for k in range(ms):
                new.append(_rmw_byte(sym.mem[off + k], orm[k], andm[k]))
            sym.mem = sym.mem[:off] + new + sym.mem[off + ms:]
            self.writes.append((sym.name, off, new, "rmw"))
            return eip.cip_reply(svc, 0)
        return eip.cip_reply(svc, 0x08)


def _bits(b):
    return [(b // (1 << i)) % 2 for i in range(8)]


def _or(a, b):
    x, y = _bits(a), _bits(b)
    return sum((x[i] + y[i] - x[i] * y[i]) * (1 << i) for i in range(8))


def _and(a, b):
    x, y = _bits(a), _bits(b)
    return sum((x[i] * y[i]) * (1 << i) for i in range(8))


def _rmw_byte(old, orm, andm):
    """(old | orm) & andm.  With concrete masks the result keeps `old` as a linear term:
    old + sum_{bits forced to 1} (1 - oldbit)*2^j - sum_{bits forced to 0} oldbit*2^j"""
    if _concrete(orm) and _concrete(andm):
        if _concrete(old):
            return (old | orm) & andm
        res = old
        for j in range(8):
            a, o = (andm >> j) & 1, (orm >> j) & 1
            if a == 0:
                res = res - ((old // (1 << j)) % 2) * (1 << j)
            elif o == 1:
                res = res + (1 - (old // (1 << j)) % 2) * (1 << j)
        return res
    return _and(_or(old, orm), andm)


def _concrete(x):
    # type() of a CrossHair symbolic int reports int; symbolic values carry a .var
    return type(x) is int and not hasattr(x, "var")
