"""Strict reference parser / builder for EtherNet/IP encapsulation and the common packet
format (ODVA Vol 2 ch. 2: 24-byte header; SendRRData / SendUnitData with two items).
Independent of pycomm3.  Works on lists of ints (elements may be symbolic)."""

CMD_NOP, CMD_LIST_IDENTITY, CMD_REGISTER, CMD_UNREGISTER, CMD_RR, CMD_UNIT = 0x00, 0x63, 0x65, 0x66, 0x6F, 0x70
KNOWN_CMDS = (0x00, 0x01, 0x04, 0x63, 0x64, 0x65, 0x66, 0x6F, 0x70)


class FrameError(Exception):
    pass


def u16(bs, p):
    return bs[p] + 256 * bs[p + 1]


def u32(bs, p):
    return bs[p] + 256 * bs[p + 1] + 65536 * bs[p + 2] + 16777216 * bs[p + 3]


def le(v, n):
    """little-endian bytes of v.  For a symbolic v (under CrossHair) the bytes are fresh variables tied to v by one linear
    constraint (same model as the struct.pack stub) instead of n div/mod terms."""
    if hasattr(v, "var") and n in (1, 2, 4, 8):
        from vlib import chplugin
        if chplugin._sym_int_pack is not None:
            r = chplugin._sym_int_pack("<" + {1: "B", 2: "H", 4: "I", 8: "Q"}[n], v % (1 << (8 * n)))     # wraps like the arithmetic form below
            if r is not None:
                return [r[i] for i in range(n)]
    return [(v // (1 << (8 * i))) % 256 for i in range(n)]


def parse_request(frame):
    """strict parse of ONE client->target frame. -> dict.  Raises FrameError with the reason."""
    bs = list(frame)
    if len(bs) < 24:
        raise FrameError("frame shorter than the 24-byte header")
    cmd = u16(bs, 0)
    length = u16(bs, 2)
    if length != len(bs) - 24:
        raise FrameError("length field %r != %d bytes that follow" % (length, len(bs) - 24))
    out = {"command": cmd, "length": length, "session": u32(bs, 4), "status": u32(bs, 8), "context": bs[12:20], "options": u32(bs, 20)}
    if out["status"] != 0:
        raise FrameError("non-zero status in a request")
    if out["options"] != 0:
        raise FrameError("non-zero options")
    if cmd not in KNOWN_CMDS:
        raise FrameError("unknown encapsulation command %r" % cmd)
    body = bs[24:]
    if cmd == CMD_REGISTER:
        if length != 4 or u16(body, 0) != 1 or u16(body, 2) != 0:
            raise FrameError("RegisterSession body must be protocol version 1, options 0")
        if out["session"] != 0:
            raise FrameError("RegisterSession with a non-zero session handle")
    elif cmd in (CMD_UNREGISTER, CMD_LIST_IDENTITY, CMD_NOP):
        if length != 0 and cmd != CMD_NOP:
            raise FrameError("command carries unexpected data")
    elif cmd in (CMD_RR, CMD_UNIT):
        if length < 16:
            raise FrameError("common packet too short")
        if u32(body, 0) != 0:
            raise FrameError("interface handle must be 0")
        out["timeout"] = u16(body, 4)
        if u16(body, 6) != 2:
            raise FrameError("item count must be 2")
        t1, l1 = u16(body, 8), u16(body, 10)
        p = 12
        if cmd == CMD_RR:
            if t1 != 0x0000 or l1 != 0:
                raise FrameError("SendRRData address item must be the null address (type 0, length 0)")
        else:
            if t1 != 0x00A1 or l1 != 4:
                raise FrameError("SendUnitData address item must be a connection address of length 4")
            if len(body) < p + 4:
                raise FrameError("truncated connection id")
            out["cid"] = body[p:p + 4]
            p += 4
        if len(body) < p + 4:
            raise FrameError("truncated data item")
        t2, l2 = u16(body, p), u16(body, p + 2)
        p += 4
        if cmd == CMD_RR and t2 != 0x00B2:
            raise FrameError("SendRRData data item must be unconnected data (0xB2)")
        if cmd == CMD_UNIT and t2 != 0x00B1:
            raise FrameError("SendUnitData data item must be connected data (0xB1)")
        if l2 != len(body) - p:
            raise FrameError("data item length %r != %d bytes of content" % (l2, len(body) - p))
        data = body[p:]
        if cmd == CMD_UNIT:
            if l2 < 2:
                raise FrameError("connected data without sequence count")
            out["seq"] = u16(data, 0)
            out["cip"] = data[2:]
            out["connected_size"] = l2
        else:
            out["cip"] = data
    return out


def header(cmd, length, session, status=0, context=None, options=0):
    return le(cmd, 2) + le(length, 2) + le(session, 4) + le(status, 4) + list(context or [0] * 8) + le(options, 4)


def reply_register(session, context=None, status=0):
    return header(CMD_REGISTER, 4, session, status, context) + [1, 0, 0, 0]


def reply_error(cmd, session, status, context=None):
    """header-only encapsulation error reply"""
    return header(cmd, 0, session, status, context)


def reply_rr(session, cip, context=None):
    body = [0, 0, 0, 0, 0, 0, 2, 0, 0, 0, 0, 0, 0xB2, 0] + le(len(cip), 2) + list(cip)
    return header(CMD_RR, len(body), session, 0, context) + body


def reply_unit(session, cid, seq, cip, context=None):
    body = [0, 0, 0, 0, 0, 0, 2, 0, 0xA1, 0, 4, 0] + list(cid) + [0xB1, 0] + le(len(cip) + 2, 2) + le(seq, 2) + list(cip)
    return header(CMD_UNIT, len(body), session, 0, context) + body


def cip_reply(service, status=0, data=(), ext=()):
    """message router reply: service|0x80, reserved, general status, ext size (words), ext words, data"""
    out = [(service % 128) + 128, 0, status, len(ext)]
    for w in ext:
        out += le(w, 2)
    return out + list(data)


def reply_list_identity(identity_item, context=None):
    """identity_item: bytes of the CIP identity item (type 0x0C ...) incl. type and length"""
    body = [1, 0] + list(identity_item)
    return header(CMD_LIST_IDENTITY, len(body), 0, 0, context) + body
