"""Reference interpretation of controller memory: what value a client must report for the
bytes at an address (independent of pycomm3; arithmetic only)."""
from vlib.ref import codec as R
from vlib.ref.logix import ATOMIC_SIZE, ATOMIC_NAME, Template
from vlib.sym import same_float, sym_and

SIGNED = {0xC2, 0xC3, 0xC4, 0xC5}


def band(a, b):
    """conjunction that does not fork on symbolic operands"""
    return sym_and(a, b)


def hidden(name):
    return name.startswith("ZZZZZZZZZZ") or name.startswith("__")


def is_string_template(t):
    vis = [m for m in t.members if not hidden(m.name)]
    return [m.name for m in vis] == ["LEN", "DATA"] and vis[1].typ == 0xC2 and vis[1].array


def esize(typ):
    return ATOMIC_SIZE[typ] if isinstance(typ, int) else typ.size


def type_name(typ):
    return ATOMIC_NAME[typ] if isinstance(typ, int) else typ.name


def same_value(typ, val, mem, off, bit=None):
    """does the client's value `val` equal what memory holds for one element of `typ` at byte offset off?"""
    if isinstance(typ, int):
        if typ == 0xC1:
            if bit is not None:
                return val == ((mem[off] // (1 << bit)) % 2 == 1)
            return val == (mem[off] != 0)
        n = ATOMIC_SIZE[typ]
        if typ in (0xCA, 0xCB):
            return same_float(val, R.from_le(mem[off:off + n]), n)
        if typ == 0xD3:
            if not isinstance(val, list) or len(val) != 32:
                return False
            ok = True
            word = R.from_le(mem[off:off + 4])
            for i in range(32):
                ok = band(ok, val[i] == ((word // (1 << i)) % 2 == 1))
            return ok
        return R.eq_le(mem[off:off + n], typ in SIGNED, val)
    if is_string_template(typ):
        ln = R.from_le(mem[off:off + 4], True)
        cap = [m.array for m in typ.members if m.name == "DATA"][0]     # capacity = length of the DATA array (the structure may be padded)
        if not isinstance(val, str):
            return False
        if not (0 <= ln <= cap):
            return None     # outside the documented domain of a Logix string
        if len(val) != ln:
            return False
        ok = True
        for i in range(ln):
            ok = band(ok, ord(val[i]) == mem[off + 4 + i])
        return ok
    if not isinstance(val, dict):
        return False
    vis = [m for m in typ.members if not hidden(m.name)]
    if sorted(val.keys()) != sorted(m.name for m in vis):
        return False
    ok = True
    for m in vis:
        v = val[m.name]
        if m.array:
            if not isinstance(v, list) or len(v) != m.array:
                return False
            for k in range(m.array):
                ok = band(ok, same_value(m.typ, v[k], mem, off + m.offset + k * esize(m.typ)))
        else:
            ok = band(ok, same_value(m.typ, v, mem, off + m.offset, m.bit if m.typ == 0xC1 else None))
    return ok


def same_elements(typ, val, mem, off, n):
    """val is a list of n consecutive elements"""
    if not isinstance(val, list) or len(val) != n:
        return False
    ok = True
    for k in range(n):
        ok = band(ok, same_value(typ, val[k], mem, off + k * esize(typ)))
    return ok
