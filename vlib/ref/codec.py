"""Independent reference codec for the CIP / Logix wire layout (CIP Vol 1 App. C, Logix
Data Access manual 1756-PM020).  Arithmetic only, shares nothing with pycomm3; works on
symbolic ints under CrossHair.  Byte strings are represented as Python lists of ints."""

# CIP elementary type codes -> (width in bytes, kind)   kind: 'u' unsigned, 's' signed, 'f' float, 'b' bool, 'bits'
CIP_TYPES = {
    0xC1: (1, "b"),
    0xC2: (1, "s"), 0xC3: (2, "s"), 0xC4: (4, "s"), 0xC5: (8, "s"),
    0xC6: (1, "u"), 0xC7: (2, "u"), 0xC8: (4, "u"), 0xC9: (8, "u"),
    0xCA: (4, "f"), 0xCB: (8, "f"),
    0xCC: (4, "s"),    # STIME
    0xCD: (2, "u"),    # DATE
    0xCE: (4, "u"),    # TIME_OF_DAY
    0xD1: (1, "bits"), 0xD2: (2, "bits"), 0xD3: (4, "bits"), 0xD4: (8, "bits"),
    0xD6: (4, "s"),    # FTIME
    0xD7: (8, "s"),    # LTIME
    0xD8: (2, "s"),    # ITIME
    0xDB: (4, "s"),    # TIME
    0xDD: (2, "bits"), # ENGUNIT
}
# string type codes -> (length-prefix width, char width)
CIP_STRINGS = {0xD0: (2, 1), 0xD5: (2, 2), 0xDA: (1, 1)}


from vlib import sym as _sym


def le(v, n):
    """little-endian bytes (list of ints) of the n-byte two's complement encoding of v"""
    u = v % (1 << (8 * n))
    return [(u // (1 << (8 * i))) % 256 for i in range(n)]


def from_le(bs, signed=False):
    n = len(bs)
    u = 0
    for i in range(n):
        u = u + bs[i] * (1 << (8 * i))
    if signed and u >= (1 << (8 * n - 1)):
        u = u - (1 << (8 * n))
    return u


def in_domain(v, n, signed):
    if signed:
        return -(1 << (8 * n - 1)) <= v < (1 << (8 * n - 1))
    return 0 <= v < (1 << (8 * n))


def bits_lsb_first(bools):
    """bit string: element i is bit i of the little-endian host integer"""
    n = len(bools) // 8
    out = []
    for k in range(n):
        b = 0
        for j in range(8):
            if bools[8 * k + j]:
                b += 1 << j
        out.append(b)
    return out


def enc_string(cps, prefix_w, char_w=1):
    """length-prefixed string from code points"""
    out = le(len(cps), prefix_w)
    for c in cps:
        out += le(c, char_w)
    return out


def enc_fixed_string(cps, capacity, prefix_w=4):
    """Logix fixed-capacity string: LEN (DINT) then `capacity` bytes, zero padded"""
    out = le(len(cps), prefix_w) + list(cps)
    return out + [0] * (capacity - len(cps))


def struct_image(size, members, bit_members):
    """template layout: members = [(offset, [bytes])], bit_members = [(offset, bit, bool)] -> list of size ints"""
    img = [0] * size
    for off, bs in members:
        for i, b in enumerate(bs):
            img[off + i] = b
    for off, bit, val in bit_members:
        cur = img[off]
        has = (cur // (1 << bit)) % 2
        if val and not has:
            img[off] = cur + (1 << bit)
        elif not val and has:
            img[off] = cur - (1 << bit)
    return img


def eq_le(bs, signed, v):
    """fork-free: do the little-endian bytes bs hold the (two's complement) integer v?"""
    n = len(bs)
    u = 0
    for i in range(n):
        u = u + bs[i] * (1 << (8 * i))
    if not signed:
        return u == v
    M = 1 << (8 * n)
    if type(u) is int and type(v) is int:
        return u == (v % M) and -(M >> 1) <= v < (M >> 1)
    return _sym.sym_or(_sym.sym_and(v >= 0, u == v), _sym.sym_and(v < 0, u == v + M))
