"""Strict reference parser / encoder for padded and packed EPATHs (CIP Vol 1 App. C-1.4,
Logix 5000 Data Access manual 1756-PM020 "CIP Service Request/Response format").
Independent of pycomm3; arithmetic only so it runs on symbolic byte lists."""


class RefError(Exception):
    pass


LOGICAL_TYPES = {0: "class_id", 1: "instance_id", 2: "member_id", 3: "connection_point", 4: "attribute_id", 5: "special", 6: "service_id"}


def parse_segments(bs, padded=True):
    """bs: list of ints -> list of segments:
         ("logical", type_name, value)
         ("symbol", [code points])           ANSI extended symbol 0x91
         ("port", port_number, [link bytes])
    raises RefError on anything malformed (odd length, non-zero pad, reserved format, truncation)"""
    out = []
    p = 0
    n = len(bs)
    while p < n:
        b = bs[p]
        top = b // 32
        if top == 1:                                   # logical segment 001 ttt ff
            ltype = (b // 4) % 8
            fmt = b % 4
            if ltype not in LOGICAL_TYPES:
                raise RefError("reserved logical type")
            if fmt == 0:
                if p + 2 > n:
                    raise RefError("truncated 8-bit logical segment")
                out.append(("logical", LOGICAL_TYPES[ltype], bs[p + 1]))
                p += 2
            elif fmt == 1:
                q = p + 1
                if padded:
                    if q >= n or bs[q] != 0:
                        raise RefError("16-bit logical segment without zero pad byte")
                    q += 1
                if q + 2 > n:
                    raise RefError("truncated 16-bit logical segment")
                out.append(("logical", LOGICAL_TYPES[ltype], bs[q] + 256 * bs[q + 1]))
                p = q + 2
            elif fmt == 2:
                q = p + 1
                if padded:
                    if q >= n or bs[q] != 0:
                        raise RefError("32-bit logical segment without zero pad byte")
                    q += 1
                if q + 4 > n:
                    raise RefError("truncated 32-bit logical segment")
                out.append(("logical", LOGICAL_TYPES[ltype], bs[q] + 256 * bs[q + 1] + 65536 * bs[q + 2] + 16777216 * bs[q + 3]))
                p = q + 4
            else:
                raise RefError("reserved logical format 0b11")
        elif b == 0x91:                                # ANSI extended symbol segment
            if p + 2 > n:
                raise RefError("truncated symbol segment")
            ln = bs[p + 1]
            if ln == 0:
                raise RefError("empty symbol")
            end = p + 2 + ln
            if end > n:
                raise RefError("truncated symbol data")
            name = [bs[i] for i in range(p + 2, end)]
            if ln % 2:
                if end >= n or bs[end] != 0:
                    raise RefError("odd-length symbol without zero pad")
                end += 1
            out.append(("symbol", name))
            p = end
        elif top == 0:                                 # port segment 000 e pppp
            ext = (b // 16) % 2
            port = b % 16
            if port == 0 or port == 15:
                raise RefError("reserved / extended port identifier")
            if ext:
                if p + 2 > n:
                    raise RefError("truncated port segment")
                ln = bs[p + 1]
                end = p + 2 + ln
                if ln < 2 or end > n:
                    raise RefError("bad extended link size")
                link = [bs[i] for i in range(p + 2, end)]
                if (2 + ln) % 2:
                    if end >= n or bs[end] != 0:
                        raise RefError("port segment without zero pad")
                    end += 1
                out.append(("port", port, link))
                p = end
            else:
                if p + 2 > n:
                    raise RefError("truncated port segment")
                out.append(("port", port, [bs[p + 1]]))
                p += 2
        else:
            raise RefError("unsupported segment type %d" % top)
    return out


def parse_path(bs, pad_len=False, padded=True):
    """word-count prefixed EPATH -> (segments, bytes consumed)"""
    if len(bs) < 1:
        raise RefError("empty path")
    words = bs[0]
    p = 1
    if pad_len:
        if len(bs) < 2 or bs[1] != 0:
            raise RefError("missing pad after path size")
        p = 2
    end = p + 2 * words
    if end > len(bs):
        raise RefError("path size exceeds data")
    return parse_segments(bs[p:end], padded), end


def enc_logical(type_name, value, padded=True):
    t = {v: k for k, v in LOGICAL_TYPES.items()}[type_name]
    if value < 256:
        return [0x20 + 4 * t, value]
    if value < 65536:
        return [0x20 + 4 * t + 1] + ([0] if padded else []) + [value % 256, value // 256]
    return [0x20 + 4 * t + 2] + ([0] if padded else []) + [value % 256, (value // 256) % 256, (value // 65536) % 256, value // 16777216]


def enc_symbol(cps):
    out = [0x91, len(cps)] + list(cps)
    if len(cps) % 2:
        out.append(0)
    return out


def enc_port(port, link):
    """link: list of byte ints"""
    if len(link) == 1:
        return [port, link[0]]
    out = [port + 16, len(link)] + list(link)
    if len(out) % 2:
        out.append(0)
    return out


def enc_path(segment_bytes, pad_len=False):
    body = []
    for s in segment_bytes:
        body += s
    if len(body) % 2:
        raise RefError("odd path")
    return [len(body) // 2] + ([0] if pad_len else []) + body
