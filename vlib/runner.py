"""Check driver: obligation discovery, 16-way scheduling, verdicts, native replay,
known findings, evidence.   ./check <Cxx> [--tier quick|thorough] [--only substr] | replay <file>
Exit codes: 0 held on everything explored; 1 VIOLATION (replayed, not a listed known finding);
2 harness / engine error (never reported as a violation)."""
import sys, os, json, time, subprocess, importlib, argparse, hashlib, traceback
from concurrent.futures import ThreadPoolExecutor, as_completed

ROOT = os.path.dirname(os.path.dirname(os.path.abspath(__file__)))
sys.path.insert(0, ROOT)
PY = os.path.join(ROOT, ".venv", "bin", "python")
TIERS = {"quick": 0, "thorough": 1}


def _run_worker(mod, obid, extra, wall_limit):
    cmd = [PY, "-m", "vlib.worker", mod, obid] + extra
    t0 = time.time()
    env = dict(os.environ, PYTHONHASHSEED="0", PYTHONDONTWRITEBYTECODE="1")
    try:
        p = subprocess.run(cmd, cwd=ROOT, capture_output=True, text=True, timeout=wall_limit, env=env)
        out = p.stdout
        for line in reversed(out.splitlines()):
            if line.startswith("@@RESULT@@"):
                r = json.loads(line[len("@@RESULT@@"):])
                r["proc_wall_s"] = round(time.time() - t0, 2)
                return r
        return {"id": obid, "status": "error", "why": "worker produced no result (rc=%s)" % p.returncode,
                "traceback": (p.stderr or "")[-2000:], "proc_wall_s": round(time.time() - t0, 2)}
    except subprocess.TimeoutExpired:
        return {"id": obid, "status": "inconclusive", "why": "worker wall-clock limit %ss" % wall_limit,
                "proc_wall_s": round(time.time() - t0, 2)}


def load_known():
    p = os.path.join(ROOT, "known_findings.json")
    if not os.path.exists(p):
        return {"known": [], "fixed": []}
    return json.load(open(p))


def repo_fingerprint():
    h = hashlib.sha256()
    base = "/repo/pycomm3"
    for root, dirs, files in sorted(os.walk(base)):
        dirs.sort()
        for f in sorted(files):
            if f.endswith(".py"):
                h.update(f.encode())
                h.update(open(os.path.join(root, f), "rb").read())
    return h.hexdigest()[:16]


def main(argv=None):
    ap = argparse.ArgumentParser()
    ap.add_argument("prop")
    ap.add_argument("--tier", default=os.environ.get("VERIF_TIER", "quick"), choices=list(TIERS))
    ap.add_argument("--only", default=None, help="substring filter on obligation ids (debugging)")
    ap.add_argument("--jobs", type=int, default=int(os.environ.get("VERIF_JOBS", "16")))
    ap.add_argument("--no-evidence", action="store_true")
    ap.add_argument("rest", nargs="*")
    a = ap.parse_args(argv)
    if a.prop == "replay":
        return replay_file(a.rest[0] if a.rest else a.tier)
    prop = a.prop
    seed = int(os.environ.get("VERIF_SEED", "0") or 0)
    t_start = time.time()
    modname = "harness." + prop
    print(f"[{prop}] tier={a.tier} seed={seed} repo={repo_fingerprint()}", flush=True)

    # 1. stub self-test (native, differential against the real C functions)
    from vlib import chplugin
    n_self, fails = chplugin.selftest()
    if fails:
        print(f"HARNESS-ERROR: stub self-test failed: {fails[:3]}")
        return 2
    specs, unknown_specs = chplugin.scan_format_specs()

    # 2. discover obligations natively (regenerated from /repo's current source)
    try:
        mod = importlib.import_module(modname)
    except Exception:
        print("HARNESS-ERROR: cannot import harness (pycomm3 import broken?)")
        traceback.print_exc()
        return 2
    obs = [o for o in mod.REG if TIERS[o.tier] <= TIERS[a.tier]]
    if a.only:
        obs = [o for o in obs if a.only in o.id]
    known = load_known()
    jobs = []
    for o in obs:
        jobs.append((o, False))
    jobs.sort(key=lambda j: -(j[0].weight * (0.2 if j[1] else 1.0) * j[0].timeout))
    results, twins = {}, {}
    with ThreadPoolExecutor(max_workers=a.jobs) as ex:
        futs = {}
        for o, twin in jobs:
            limit = (o.timeout + 30) * 3 + 60
            futs[ex.submit(_run_worker, modname, o.id, ["--twin"] if twin else [], limit)] = (o, twin)
        for f in as_completed(futs):
            o, twin = futs[f]
            r = f.result()
            (twins if twin else results)[o.id] = r
            if not twin and r.get("twin_result") is not None:
                twins[o.id] = r.pop("twin_result")
            if not twin and os.environ.get("VERIF_VERBOSE"):
                print(f"  {o.id}: {r.get('status')} paths={r.get('paths')} {r.get('proc_wall_s')}s {r.get('why', '')}", flush=True)

    # 3. classify
    violations, known_hits, inconclusive, errors = [], [], [], []
    confirmed, nontrivial = 0, 0
    rdir = os.path.join(ROOT, "evidence", "replay")
    os.makedirs(rdir, exist_ok=True)
    if not a.only:
        for f in os.listdir(rdir):
            if f.startswith(prop + "_"):
                os.unlink(os.path.join(rdir, f))
    for o in obs:
        r = results[o.id]
        st = r.get("status")
        if st == "confirmed":
            confirmed += 1
            tw = twins.get(o.id)
            if o.engine == "A" and o.twin:
                if tw is None or tw.get("status") == "confirmed":
                    errors.append((o.id, "reachability twin confirmed: harness is vacuous"))
                elif tw.get("status") == "refuted":
                    nontrivial += 1
                else:
                    inconclusive.append((o.id, "twin: " + str(tw.get("why") or tw.get("status"))))
            else:
                if r.get("nonvacuous", True):
                    nontrivial += 1
        elif st == "refuted":
            if o.engine == "A":
                if r.get("cex") is None:
                    errors.append((o.id, "refuted without a counterexample: " + str(r.get("messages"))))
                    continue
                rp = _run_worker(modname, o.id, ["--replay", json.dumps(r["cex"])], 300)
                reproduced = rp.get("reproduced")
                r["replay"] = rp
            else:
                reproduced = r.get("reproduced")
            kid = r.get("known_id") or o.known
            if reproduced and kid and any(k.get("id") == kid and k.get("property") == prop for k in known.get("known", [])):
                ent = [k for k in known["known"] if k.get("id") == kid][0]
                r["detail"] = ent.get("what", kid)
                known_hits.append((o.id, r))
                continue
            if not reproduced:
                errors.append((o.id, "counterexample does not reproduce natively (model/stub error): %s -> %s"
                               % (r.get("cex"), r.get("replay", {}).get("why") or r.get("replay", {}).get("ret"))))
                continue
            path = os.path.join(ROOT, "evidence", "replay", f"{prop}_" + "".join(c if c.isalnum() or c in "-." else "_" for c in o.id) + ".json")
            json.dump({"property": prop, "module": modname, "obligation": o.id, "engine": o.engine,
                       "args": r.get("cex"), "returned": r.get("ret") or r.get("detail")}, open(path, "w"), indent=1)
            violations.append((o.id, path, r))
        elif st == "known":
            known_hits.append((o.id, r))
        elif st == "inconclusive":
            inconclusive.append((o.id, str(r.get("why"))))
        else:
            errors.append((o.id, str(r.get("why")) + "\n" + str(r.get("traceback", ""))[-1200:]))

    for oid, why in inconclusive:
        print(f"INCONCLUSIVE property={prop} obligation={oid} {why}")
    for oid, why in errors:
        print(f"HARNESS-ERROR property={prop} obligation={oid} {why}")
    for oid, r in known_hits:
        print(f"KNOWN-FINDING: property={prop} {r.get('detail', oid)}")
    for oid, path, r in violations:
        print(f"  counterexample {oid}: args={r.get('cex')} returned={r.get('ret') or r.get('detail')}")
        print(f"VIOLATION property={prop} replay={path}")

    wall = time.time() - t_start
    if not a.no_evidence and not a.only:
        write_evidence(prop, a.tier, seed, obs, results, twins, confirmed, nontrivial, inconclusive, errors,
                       violations, known_hits, wall, n_self, specs, unknown_specs, mod)
    print(f"[{prop}] obligations={len(obs)} confirmed={confirmed} nonvacuous={nontrivial} refuted={len(violations)} "
          f"known={len(known_hits)} inconclusive={len(inconclusive)} errors={len(errors)} wall={wall:.1f}s", flush=True)
    if violations:
        return 1
    if errors:
        return 2
    return 0


def write_evidence(prop, tier, seed, obs, results, twins, confirmed, nontrivial, inconclusive, errors,
                   violations, known_hits, wall, n_self, specs, unknown_specs, mod):
    from vlib import chplugin
    paths = sum(int(r.get("paths", 0) or 0) for r in results.values()) + sum(int(r.get("paths", 0) or 0) for r in twins.values())
    queries = sum(int(r.get("queries", 0) or 0) for r in results.values())
    solver_s = sum(float(r.get("cpu_s", 0) or 0) + float(r.get("solver_s", 0) or 0) for r in list(results.values()) + list(twins.values()))
    funcs = sorted({f for o in obs for f in o.funcs})
    samples = []
    for o in obs[:]:
        r = results[o.id]
        if len(samples) >= 12:
            break
        tw = twins.get(o.id, {})
        samples.append({"obligation": o.id, "engine": o.engine, "symbolic": o.desc, "status": r.get("status"),
                        "paths": r.get("paths"), "queries": r.get("queries"),
                        "witness_from_twin": tw.get("cex") if tw else r.get("witness")})
    ev = {
        "property_id": prop,
        "tier": tier,
        "seed": seed,
        "level": "model_checking",
        "coverage": {
            "evaluations": max(1, paths + queries),
            "distinct_nontrivial": nontrivial,
            "rule": "one case = one obligation (a harness over the real pycomm3 code with symbolic arguments) decided by the "
                    "solver over ALL values of its symbolic arguments within the stated bounds; evaluations = symbolic paths "
                    "explored by CrossHair plus z3 validity queries of Engine B; an obligation counts as distinct and "
                    "non-trivial when it is confirmed AND its reachability twin (same body, postcondition False) was refuted, "
                    "i.e. the assertion is reachable with at least one symbolic input",
            "samples": samples,
            "obligations": len(obs),
            "discharged": confirmed,
            "inconclusive": [f"{i}: {w}" for i, w in inconclusive],
            "known_findings_reported": [r.get("detail", i) for i, r in known_hits],
            "functions_encoded": funcs,
            "bounds": getattr(mod, "BOUNDS", {}).get(tier, getattr(mod, "BOUNDS", {})),
            "outside_claim": getattr(mod, "OUTSIDE", []),
            "symbolic_paths": paths,
            "z3_queries": queries,
            "solver_cpu_s": round(solver_s, 2),
            "stub_selftest_checks": n_self,
            "format_specs_in_repo": sorted(specs),
            "format_specs_unmodelled": sorted(unknown_specs),
            "trusted_base": ["CrossHair 0.0.110 symbolic execution", "z3 5.1.0"] + list(getattr(mod, "TRUSTED", [])),
            "checker_cmd": f"./check {prop} --tier {tier}",
            "exhaustive": False,
            "repo_fingerprint": repo_fingerprint(),
        },
        "assumptions": list(getattr(mod, "ASSUMPTIONS", [])) + ["environment stubs: " + s for s in _stub_list()],
        "wall_s": round(wall, 2),
        "violations": len(violations),
    }
    os.makedirs(os.path.join(ROOT, "evidence"), exist_ok=True)
    json.dump(ev, open(os.path.join(ROOT, "evidence", f"{prop}.json"), "w"), indent=1, default=repr)


def _stub_list():
    # the stub list is produced by chplugin.install(); obtain it without installing here
    p = subprocess.run([PY, "-c", "import sys; sys.path.insert(0, %r); from vlib import chplugin; chplugin.install(); import json; print(json.dumps(chplugin.STUBS))" % ROOT],
                       capture_output=True, text=True, cwd=ROOT)
    try:
        return json.loads(p.stdout.strip().splitlines()[-1])
    except Exception:
        return ["(stub list unavailable)"]


def replay_file(path):
    d = json.load(open(path))
    r = _run_worker(d["module"], d["obligation"], ["--replay", json.dumps(d["args"])], 300)
    print(json.dumps(r, indent=1))
    if r.get("reproduced"):
        print(f"VIOLATION property={d['property']} replay={path}")
        return 1
    return 0


if __name__ == "__main__":
    sys.exit(main())
