"""Environment model for Engine A (CrossHair 0.0.110) -- DESIGN.md section 2.2.

`install()` replaces pycomm3's C-level leaf operations by pure-Python / arithmetic
models so that symbolic values survive them.  No pycomm3 source line is changed:
patches go through CrossHair's registry (by function identity) or rebind the module
global the real code looks up.  Every model has a differential self-test against the
real C function (`selftest()`), run on every check.
"""
import io
import operator as _ops
import re as _re
import reprlib
import struct as _struct
import logging

STUBS = []  # human readable list, copied into every evidence file


def _note(s):
    if s not in STUBS:
        STUBS.append(s)


# --------------------------------------------------------------------------- BytesIO
class PyBytesIO:
    """pure-Python stand-in for io.BytesIO over a (possibly symbolic) bytes value.

    Counts read() calls so that a decoder that spins on an exhausted stream is turned
    into a `Hang` verdict instead of a per-path timeout (C08 termination)."""

    def __init__(self, initial=b""):
        self._buf = initial
        self._pos = 0
        self._reads = 0

    def read(self, size=-1):
        self._reads += 1
        buf, pos = self._buf, self._pos
        n = len(buf)
        if self._reads > 4 * n + 64:
            raise Hang("stream read() called %d times on %d bytes" % (self._reads, n))
        if size is None or size < 0:
            end = n
        else:
            end = pos + size
            if end > n:
                end = n
        if pos >= n:
            return b""
        self._pos = end
        return buf[pos:end]

    def tell(self):
        return self._pos

    def seek(self, pos, whence=0):
        if whence == 0:
            self._pos = pos
        elif whence == 1:
            self._pos += pos
        else:
            self._pos = len(self._buf) + pos
        return self._pos

    def getvalue(self):
        return self._buf

    def getbuffer(self):
        b = self._buf

        class _V:
            nbytes = len(b)

        return _V()


class Hang(BaseException):
    """raised by the stream model when a decoder does not terminate"""


def _bytesio(initial=b""):
    return PyBytesIO(initial)


# --------------------------------------------------------------------------- float tokens
class F32:
    """IEEE-754 bit pattern carried opaquely between pack and unpack (pycomm3 never
    computes with REAL/LREAL values)."""

    __slots__ = ("bits",)
    width = 4

    def __init__(self, bits):
        self.bits = bits

    def __eq__(self, o):
        return type(o) is type(self) and self.bits == o.bits

    def __ne__(self, o):
        return not self.__eq__(o)

    def __hash__(self):
        return 0

    def __repr__(self):
        return "%s(0x%x)" % (type(self).__name__, self.bits)


class F64(F32):
    __slots__ = ()
    width = 8


_FLOAT_FMT = {"<f": (4, "little"), ">f": (4, "big"), "<d": (8, "little"), ">d": (8, "big"),
              "f": (4, "little"), "d": (8, "little")}


_INT_FMT = {"b": (1, True), "B": (1, False), "h": (2, True), "H": (2, False), "i": (4, True), "I": (4, False),
            "l": (4, True), "L": (4, False), "q": (8, True), "Q": (8, False)}
_sym_int_pack = None   # set by install(): (fmt, value) -> symbolic bytes or None


def m_pack(fmt, *args):
    if _sym_int_pack is not None and len(args) == 1 and type(fmt) is str and len(fmt) == 2 and fmt[0] in "<>" and fmt[1] in _INT_FMT:
        r = _sym_int_pack(fmt, args[0])
        if r is not None:
            return r
    spec = _FLOAT_FMT.get(fmt)
    if spec is not None and len(args) == 1:
        n, order = spec
        a = args[0]
        if isinstance(a, F32):
            if a.width != n:
                raise _struct.error("float width mismatch (model)")
            if _sym_int_pack is not None:
                r = _sym_int_pack(("<" if order == "little" else ">") + ("I" if n == 4 else "Q"), a.bits)
                if r is not None:
                    return r
            return a.bits.to_bytes(n, order)
        if not isinstance(a, (int, float)) or isinstance(a, bool) and False:
            raise _struct.error("required argument is not a float")
    return _struct.pack(fmt, *args)


_sym_int_unpack = None   # set by install(): (fmt, data) -> int or None


def m_unpack(fmt, data):
    if _sym_int_unpack is not None and type(fmt) is str and len(fmt) == 2 and fmt[0] in "<>" and fmt[1] in _INT_FMT:
        r = _sym_int_unpack(fmt, data)
        if r is not None:
            return (r,)
    spec = _FLOAT_FMT.get(fmt)
    if spec is not None:
        n, order = spec
        if len(data) != n:
            raise _struct.error("unpack requires a buffer of %d bytes" % n)
        bits = int.from_bytes(data, order)
        return ((F32 if n == 4 else F64)(bits),)
    return _struct.unpack(fmt, data)



# --------------------------------------------------------------------------- utf-16-le / utf-32-le models
def utf16le_encode_units(cps):
    """code points -> (byte ints, index of first bad char or None, reason)"""
    out = []
    for idx, cp in enumerate(cps):
        if cp < 0xD800:
            out += [cp % 256, cp // 256]
        elif cp < 0xE000:
            return out, idx, "surrogates not allowed"
        elif cp < 0x10000:
            out += [cp % 256, cp // 256]
        else:
            v = cp - 0x10000
            hi = 0xD800 + v // 1024
            lo = 0xDC00 + v % 1024
            out += [hi % 256, hi // 256, lo % 256, lo // 256]
    return out, None, ""


def utf16le_decode_units(bs):
    """byte ints -> (code points, index of error or None, reason)"""
    cps = []
    i = 0
    n = len(bs)
    while i < n:
        if i + 1 >= n:
            return cps, i, "truncated data"
        u = bs[i] + 256 * bs[i + 1]
        if u < 0xD800 or u >= 0xE000:
            cps.append(u)
            i += 2
        elif u < 0xDC00:
            if i + 3 >= n:
                return cps, i, "unexpected end of data"
            u2 = bs[i + 2] + 256 * bs[i + 3]
            if 0xDC00 <= u2 < 0xE000:
                cps.append(0x10000 + (u - 0xD800) * 1024 + (u2 - 0xDC00))
                i += 4
            else:
                return cps, i, "illegal UTF-16 surrogate"
        else:
            return cps, i, "illegal encoding"
    return cps, None, ""


def utf32le_encode_units(cps):
    out = []
    for idx, cp in enumerate(cps):
        if 0xD800 <= cp < 0xE000:
            return out, idx, "surrogates not allowed"
        out += [cp % 256, (cp // 256) % 256, (cp // 65536) % 256, cp // 16777216]
    return out, None, ""


def utf32le_decode_units(bs):
    cps = []
    i = 0
    n = len(bs)
    while i < n:
        if i + 3 >= n:
            return cps, i, "truncated data"
        u = bs[i] + 256 * bs[i + 1] + 65536 * bs[i + 2] + 16777216 * bs[i + 3]
        if 0xD800 <= u < 0xE000:
            return cps, i, "code point in surrogate code point range(0xd800, 0xe000)"
        if u >= 0x110000:
            return cps, i, "code point not in range(0x110000)"
        cps.append(u)
        i += 4
    return cps, None, ""

# --------------------------------------------------------------------------- installation
_installed = False
SYMBOLIC = False  # True inside the CrossHair worker; harness helpers consult it


def _const_repr(obj):
    return "<repr>"


def _hex_digit_cp(n):
    # n in 0..15 -> code point of the lowercase hex digit: 48+n (+39 if n >= 10)
    return 48 + n + 39 * (n // 10)


_HEX_SPEC = _re.compile(r"^(?:0>?)?(\d*)([xX])$")
_DEC_SPEC = _re.compile(r"^(?:0>?)?(\d*)d?$")
KNOWN_INT_SPECS = set()   # specs the model covers (filled by selftest / scan)


def install():
    """install all models; idempotent"""
    global _installed, SYMBOLIC
    if _installed:
        return
    _installed = True
    SYMBOLIC = True
    import crosshair.core_and_libs  # noqa: registers the stock library models first
    from crosshair import core as _core
    from crosshair.core import register_patch
    from crosshair.tracers import NoTracing, ResumedTracing
    from crosshair.libimpl import builtinslib as _bl
    from crosshair.libimpl.builtinslib import (SymbolicInt, LazyIntSymbolicStr, AnySymbolicStr,
                                                SymbolicByteArray, SymbolicBytes)
    import z3 as _z3

    logging.disable(logging.CRITICAL)
    _note("logging: disabled (handlers lock/write/read the clock); f-string arguments are still evaluated")

    register_patch(io.BytesIO, _bytesio)
    _note("io.BytesIO -> pure-Python stream over (symbolic) bytes, read-count Hang guard")

    import pycomm3.cip.data_types as _dt
    _dt._repr = _const_repr
    register_patch(reprlib.repr, _const_repr)
    import pycomm3.packets.util as _pu
    _pu.PacketLazyFormatter.__str__ = lambda self: "<packet>"
    _pu.print_bytes_msg = lambda msg: "<packet>"
    _note("reprlib.repr / data_types._repr / PacketLazyFormatter.__str__ -> constant string")

    from crosshair.statespace import context_statespace
    # ---- integer pack: fresh byte variables tied to the value by ONE linear constraint
    # (v == sum b_i * 256^i, 0 <= b_i < 256; the decomposition is unique) instead of n div/mod
    # terms -- keeps 8-byte round trips inside linear integer arithmetic.
    from crosshair.statespace import context_statespace

    def _int_pack(fmt, v):
        with NoTracing():
            if not isinstance(v, SymbolicInt):
                return None
        n, signed = _INT_FMT[fmt[1]]
        M = 1 << (8 * n)
        if signed:
            if v < -(M >> 1) or v >= (M >> 1):
                raise _struct.error("argument out of range")
        else:
            if v < 0 or v >= M:
                raise _struct.error("argument out of range")
        with NoTracing():
            space = context_statespace()
            tag = space.uniq()
            bs = [_z3.Int(f"pk{tag}_{i}") for i in range(n)]
            for b in bs:
                space.add(_z3.And(b >= 0, b < 256))
            total = _z3.Sum([bs[i] * (1 << (8 * i)) for i in range(n)])
            u = _z3.If(v.var < 0, v.var + M, v.var) if signed else v.var
            space.add(total == u)
            ints = [SymbolicInt(b) for b in bs]
            if fmt[0] == ">":
                ints.reverse()
            return SymbolicBytes(ints)

    def _int_unpack(fmt, data):
        """fork-free unpack of a symbolic buffer: u = sum b_i*256^i, sign by one z3 If (CrossHair's from_bytes forks on the sign)"""
        with NoTracing():
            if not isinstance(data, (SymbolicBytes, SymbolicByteArray)):
                return None
        n, signed = _INT_FMT[fmt[1]]
        if len(data) != n:
            raise _struct.error("unpack requires a buffer of %d bytes" % n)
        bs = [data[i] for i in range(n)]
        if fmt[0] == ">":
            bs.reverse()
        u = 0
        for i in range(n):
            u = u + bs[i] * (1 << (8 * i))
        if not signed:
            return u
        with NoTracing():
            if not isinstance(u, SymbolicInt):
                M = 1 << (8 * n)
                return u - M if u >= (M >> 1) else u
            M = 1 << (8 * n)
            return SymbolicInt(_z3.If(u.var >= (M >> 1), u.var - M, u.var))

    global _sym_int_pack, _sym_int_unpack
    _sym_int_pack = _int_pack
    _sym_int_unpack = _int_unpack
    _dt.pack = m_pack
    _dt.unpack = m_unpack
    _note("struct.pack of a symbolic int -> n fresh byte variables with v == sum b_i*256^i (unique decomposition), range check as struct.error")
    _note("struct.pack/unpack f,d -> float tokens F32/F64(bits) (C float conversion trusted); ints via CrossHair structlib")


    # ---- decimal rendering of a symbolic int: fresh digit variables with ONE linear constraint
    # v == sum d_k*10^k (0 <= d_k <= 9; unique), forks on the digit count only
    def _int_repr(self):
        if self < 0:
            return "-" + (-self).__repr__()
        nd = 1
        while self >= 10 ** nd:
            nd += 1
        with NoTracing():
            space = context_statespace()
            tag = space.uniq()
            ds = [_z3.Int(f"dg{tag}_{k}") for k in range(nd)]
            for d in ds:
                space.add(_z3.And(d >= 0, d <= 9))
            space.add(self.var == _z3.Sum([ds[k] * (10 ** k) for k in range(nd)]))
            cps = [SymbolicInt(48 + ds[k]) for k in reversed(range(nd))]
            return LazyIntSymbolicStr(cps)

    _bl.SymbolicInt.__repr__ = _int_repr
    _note("str()/repr()/format(int,'') of a symbolic int -> fresh digit variables with v == sum d_k*10^k, forks on digit count only")

    # ---- format()
    _orig_format = _core._PATCH_REGISTRATIONS[format]

    def _sym_format(obj, format_spec=""):
        with NoTracing():
            is_sym = isinstance(obj, SymbolicInt)
            spec = format_spec if type(format_spec) is str else None
        if is_sym and spec is not None:
            m = _HEX_SPEC.match(spec)
            if m and obj >= 0:
                width = int(m.group(1) or 1)
                nd = 1
                while obj >= (1 << (4 * nd)):
                    nd += 1
                if nd < width:
                    nd = width
                # fresh nibble variables tied to the value by one linear constraint (unique decomposition)
                with NoTracing():
                    space = context_statespace()
                    tag = space.uniq()
                    ds = [_z3.Int(f"hx{tag}_{k}") for k in range(nd)]
                    for dd in ds:
                        space.add(_z3.And(dd >= 0, dd <= 15))
                    space.add(obj.var == _z3.Sum([ds[k] * (16 ** k) for k in range(nd)]))
                    cps = [SymbolicInt(ds[k] + _z3.If(ds[k] >= 10, 87, 48)) for k in reversed(range(nd))]
                    return LazyIntSymbolicStr(cps)
            if spec in ("", "d"):
                return obj.__repr__()
        return _orig_format(obj, format_spec)

    _core._PATCH_REGISTRATIONS[format] = _sym_format
    _note("format(int, '[0>]Nx' | '' | 'd') -> per-nibble code points, forks on digit count only")

    # ---- bin()
    def _sym_bin(v):
        with NoTracing():
            is_sym = isinstance(v, SymbolicInt)
        if not is_sym:
            return bin(v)
        if v < 0:
            return bin(_core.realize(v))
        nd = 1
        while v >= (1 << nd):
            nd += 1
        cps = [48, 98] + [48 + ((v >> i) & 1) for i in reversed(range(nd))]
        with NoTracing():
            return LazyIntSymbolicStr(cps)

    _core._PATCH_REGISTRATIONS[bin] = _sym_bin
    _note("bin(int) -> code points 48+((v>>i)&1), forks on bit length")

    # ---- bit operations with a concrete non-negative constant
    def _bits(c):
        i = 0
        while c:
            if c & 1:
                yield i
            c >>= 1
            i += 1

    def _bitop_const_for(op):
        def _bitop_const(_op_ignored, a, b):
            with NoTracing():
                if isinstance(b, SymbolicInt) and not isinstance(a, SymbolicInt):
                    a, b = b, a
                ok = isinstance(a, SymbolicInt) and type(b) is int and b >= 0
                if ok:
                    av = a.var
                    if op is _ops.and_:
                        e = _z3.IntVal(0)
                        for i in _bits(b):
                            e = e + ((av / (1 << i)) % 2) * (1 << i)
                    elif op is _ops.or_:
                        e = av
                        for i in _bits(b):
                            e = e + (1 - ((av / (1 << i)) % 2)) * (1 << i)
                    else:
                        e = av
                        for i in _bits(b):
                            e = e + (1 - 2 * ((av / (1 << i)) % 2)) * (1 << i)
                    return SymbolicInt(e)
            return op(_core.realize(a), _core.realize(b))
        return _bitop_const

    for _op in (_ops.and_, _ops.or_, _ops.xor):
        f = _bitop_const_for(_op)
        _bl._BIN_OPS_SEARCH_ORDER.append((_op, SymbolicInt, int, f))
        _bl._BIN_OPS_SEARCH_ORDER.append((_op, int, SymbolicInt, f))
    _bl._BIN_OPS.clear()
    _note("SymbolicInt &,|,^ concrete c>=0 -> sum over bits of c of ((a div 2^i) mod 2) terms (exact for Python ints)")

    # ---- dict methods with symbolic keys
    def _is_sym(k):
        with NoTracing():
            return isinstance(k, (AnySymbolicStr, SymbolicInt))

    def _dict_getitem(self, key):
        if _is_sym(key):
            with NoTracing():
                kt = str if isinstance(key, AnySymbolicStr) else int
            for k in list(self.keys()):
                if type(k) is kt and k == key:
                    return dict.__getitem__(self, k)
            raise KeyError(key)
        return dict.__getitem__(self, key)

    def _dict_contains(self, key):
        if _is_sym(key):
            with NoTracing():
                kt = str if isinstance(key, AnySymbolicStr) else int
            for k in list(self.keys()):
                if type(k) is kt and k == key:
                    return True
            return False
        return dict.__contains__(self, key)

    register_patch(dict.__getitem__, _dict_getitem)
    register_patch(dict.__contains__, _dict_contains)
    _note("dict.__getitem__/__contains__ called as methods with a symbolic key -> linear scan with symbolic equality")

    # ---- ASCII lower / upper
    def _m_lower(self):
        cps = []
        for ch in self:
            c = ord(ch)
            cps.append(c + 32 * ((c // 65) - (c // 91)))
        with NoTracing():
            return LazyIntSymbolicStr(cps)

    def _m_upper(self):
        cps = []
        for ch in self:
            c = ord(ch)
            cps.append(c - 32 * ((c // 97) - (c // 123)))
        with NoTracing():
            return LazyIntSymbolicStr(cps)

    _bl.AnySymbolicStr.lower = _m_lower
    _bl.AnySymbolicStr.upper = _m_upper
    _note("str.lower/upper on symbolic strings -> ASCII model c +/- 32*[range] (code points < 128 only)")

    # ---- bytearray(n) in custom_types
    import pycomm3.custom_types as _ct

    def _sym_bytearray(arg=0):
        if isinstance(arg, int):
            with NoTracing():
                return SymbolicByteArray([0] * int(arg))
        return bytearray(arg)

    _ct.bytearray = _sym_bytearray
    _note("bytearray(n) inside pycomm3.custom_types -> CrossHair SymbolicByteArray of n zeros")

    # ---- all / any as forking loops
    def _all(it):
        for x in it:
            if not x:
                return False
        return True

    def _any(it):
        for x in it:
            if x:
                return True
        return False

    _core._PATCH_REGISTRATIONS[all] = _all
    _core._PATCH_REGISTRATIONS[any] = _any
    _note("all/any -> forking loops returning real bools")


    # ---- utf-16-le / utf-32-le symbolic codecs (CrossHair ships ascii, latin-1, utf-8 only)
    import codecs as _codecs
    from crosshair.libimpl.encodings._encutil import StemEncoder, MidChunkError

    def _mk_stem(name, enc_units, dec_units):
        class _Stem(StemEncoder):
            encoding_name = name

            @classmethod
            def _encode_chunk(cls, string, start):
                cps = [ord(string[i]) for i in range(start, len(string))]
                out, bad, reason = enc_units(cps)
                if bad is None:
                    return (SymbolicBytes(out), len(string), None)
                return (SymbolicBytes(out), start + bad, MidChunkError(reason))

            @classmethod
            def _decode_chunk(cls, byts, start):
                bs = [byts[i] for i in range(start, len(byts))]
                cps, bad, reason = dec_units(bs)
                text = "".join([chr(c) for c in cps])
                if bad is None:
                    return (text, len(byts), None)
                return (text, start + bad, MidChunkError(reason))
        return _Stem.getregentry()

    _my_codecs = {
        "crosshair_utf_16_le": _mk_stem("utf-16-le", utf16le_encode_units, utf16le_decode_units),
        "crosshair_utf_32_le": _mk_stem("utf-32-le", utf32le_encode_units, utf32le_decode_units),
    }

    def _search(name):
        return _my_codecs.get(name.replace("-", "_"))

    _codecs.register(_search)
    _note("str.encode/bytes.decode utf-16-le, utf-32-le -> arithmetic code-unit models (surrogate pairs, truncation and range errors as the C codecs)")


    # ---- strict codec errors without realising the input; repr() of a symbolic str -> constant
    from crosshair.libimpl.encodings import _encutil as _eu
    _orig_stem_encode = _eu.StemEncoder.encode.__func__
    _orig_stem_decode = _eu.StemEncoder.decode.__func__

    def _stem_encode(cls, input, errors="strict"):
        if errors == "strict" and isinstance(input, str):
            parts = []
            idx = 0
            inputlen = len(input)
            while idx < inputlen:
                out, idx, err = cls._encode_chunk(input, idx)
                parts.append(out)
                if err is not None:
                    raise UnicodeEncodeError(cls.encoding_name, "?", 0, 1, err.reason())
            return b"".join(parts), idx
        return _orig_stem_encode(cls, input, errors)

    _eu.StemEncoder.encode = classmethod(_stem_encode)
    _orig_repr = _core._PATCH_REGISTRATIONS.get(repr)

    def _sym_repr(obj):
        with NoTracing():
            symstr = isinstance(obj, AnySymbolicStr)
            symbytes = isinstance(obj, (SymbolicBytes, SymbolicByteArray))
        if symstr:
            return "'<symbolic str>'"
        if symbytes:
            return "b'<symbolic bytes>'"
        return _orig_repr(obj) if _orig_repr is not None else repr(obj)

    _core._PATCH_REGISTRATIONS[repr] = _sym_repr
    _note("repr() of a symbolic str / bytes -> constant (only used in log and error messages); strict codec errors raised without realising the input")


    # ---- datetime rendering in LogixDriver.get_plc_time: opaque stand-ins (the rendering is outside every claim)
    import pycomm3.logix_driver as _ld

    class _FakeTimedelta:
        def __init__(self, microseconds=0):
            self.microseconds = microseconds

    class _FakeDatetime:
        def __init__(self, *a, us=0):
            self.us = us

        def __add__(self, td):
            return _FakeDatetime(us=self.us + td.microseconds)

        def strftime(self, fmt):
            return "<time>"

    class _FakeDatetimeModule:
        datetime = _FakeDatetime
        timedelta = _FakeTimedelta

    _ld.datetime = _FakeDatetimeModule
    _note("datetime/timedelta inside pycomm3.logix_driver (get_plc_time rendering) -> opaque stand-ins")

    import pycomm3.cip_driver as _cd
    _cd.urandom = lambda n: bytes([0x5A] * n)
    _note("os.urandom (cip_driver) -> fixed bytes")



def install_bitarray_summaries():
    """fork-free implementations of the LSB-first specification of BitArrayType._decode/_encode.
    Used by driver-level BOOL-array scenarios ONLY together with the Engine B obligations that prove
    the real methods equal to this specification on the current source (DESIGN.md 2.3 Composition)."""
    import pycomm3.cip.data_types as _dt
    from pycomm3.exceptions import DataError

    def _decode(cls, stream):
        val = cls.host_type.decode(stream)
        return [((val // (1 << i)) % 2) == 1 for i in range(cls.size * 8)]

    def _encode(cls, value):
        if len(value) != (8 * cls.size):
            raise DataError(f"boolean arrays must be multiple of 8: not {len(value)}")
        _value = 0
        for i, val in enumerate(value):
            _value = _value + (1 << i) * (1 if val is True else 0 if val is False else int(bool(val)) if not hasattr(val, "var") else val * 1)
        return cls.host_type._encode(_value)

    if not hasattr(_dt.BitArrayType, "_real_decode"):
        _dt.BitArrayType._real_decode = _dt.BitArrayType.__dict__["_decode"].__func__
        _dt.BitArrayType._real_encode = _dt.BitArrayType.__dict__["_encode"].__func__
    _dt.BitArrayType._decode = classmethod(_decode)
    _dt.BitArrayType._encode = classmethod(_encode)
    _note("BitArrayType._decode/_encode -> fork-free LSB-first specification (proved equal to the real methods by the bits/* Engine B obligations of the same run)")

# --------------------------------------------------------------------------- self-test
def selftest():
    """differential test of the pure-Python models against the real C functions on
    concrete inputs.  Returns (n_checks, failures:list[str]).  Runs natively."""
    import random
    fails = []
    n = 0
    rnd = random.Random(12345)
    # BytesIO
    for data in (b"", b"a", bytes(range(10)), bytes(rnd.randrange(256) for _ in range(33))):
        for script in ([1, 2, 3], [0, 4, -1], [100], [2, 2, 2, 2, 2, 2, 2]):
            a, b = io.BytesIO(data), PyBytesIO(data)
            for s in script:
                n += 1
                ra, rb = a.read(s), b.read(s)
                if ra != rb or a.tell() != b.tell():
                    fails.append(f"BytesIO.read({s}) on {data!r}: {ra!r} vs {rb!r}")
            n += 1
            if a.getvalue() != b.getvalue() or a.getbuffer().nbytes != b.getbuffer().nbytes:
                fails.append("BytesIO.getvalue/getbuffer")
    # float tokens: pack(unpack(b)) == b for non-NaN patterns, width errors
    pats = [0, 1, 0x7F800000, 0xFF800000, 0x00800000, 0x007FFFFF, 0x3F800000, 0x80000000]
    pats += [rnd.randrange(1 << 32) for _ in range(200)]
    for p in pats:
        n += 1
        b = p.to_bytes(4, "little")
        tok = m_unpack("<f", b)[0]
        if m_pack("<f", tok) != b:
            fails.append(f"float token round trip {p:#x}")
        real = _struct.unpack("<f", b)[0]
        if real == real and _struct.pack("<f", real) != b:
            fails.append(f"C float round trip differs from token model at {p:#x}")
    for p in [0, 1, 0x7FF0000000000000, 0xFFF0000000000000, 0x3FF0000000000000] + [rnd.randrange(1 << 64) for _ in range(200)]:
        n += 1
        b = p.to_bytes(8, "little")
        tok = m_unpack("<d", b)[0]
        if m_pack("<d", tok) != b:
            fails.append(f"double token round trip {p:#x}")
        real = _struct.unpack("<d", b)[0]
        if real == real and _struct.pack("<d", real) != b:
            fails.append(f"C double round trip differs at {p:#x}")
    for fmt, ln in (("<f", 3), ("<f", 5), ("<d", 7), ("<d", 0)):
        n += 1
        try:
            m_unpack(fmt, bytes(ln))
            fails.append("short float unpack accepted")
        except _struct.error:
            pass
        try:
            _struct.unpack(fmt, bytes(ln))
            fails.append("C short float unpack accepted?")
        except _struct.error:
            pass
    # utf-16/32 models vs the C codecs
    samples = ["", "a", "ab", "\xe9\xff", "\u20ac\ud7ff\ue000\uffff", "\U00010000\U0010ffffz", "x\ud800", "\udfffy"]
    samples += ["".join(chr(rnd.choice([rnd.randrange(0, 0xD800), rnd.randrange(0xE000, 0x110000)])) for _ in range(rnd.randrange(1, 5))) for _ in range(200)]
    for text in samples:
        for enc, eu, du in (("utf-16-le", utf16le_encode_units, utf16le_decode_units), ("utf-32-le", utf32le_encode_units, utf32le_decode_units)):
            n += 1
            out, bad, _ = eu([ord(c) for c in text])
            try:
                real = text.encode(enc)
                if bad is not None or bytes(out) != real:
                    fails.append(f"{enc} encode {text!r}")
            except UnicodeEncodeError as e:
                if bad != e.start:
                    fails.append(f"{enc} encode error position {text!r}")
    for _ in range(600):
        bs = bytes(rnd.randrange(256) for _ in range(rnd.randrange(0, 9)))
        if rnd.random() < 0.5 and len(bs) >= 2:
            bs = bs[:1] + bytes([rnd.choice([0xD8, 0xDB, 0xDC, 0xDF, 0x00])]) + bs[2:]
        for enc, du in (("utf-16-le", utf16le_decode_units), ("utf-32-le", utf32le_decode_units)):
            n += 1
            cps, bad, _ = du(list(bs))
            try:
                real = bs.decode(enc)
                if bad is not None or "".join(map(chr, cps)) != real:
                    fails.append(f"{enc} decode {bs!r}")
            except UnicodeDecodeError as e:
                if bad is None or bad != e.start:
                    fails.append(f"{enc} decode error position {bs!r}: model {bad} real {e.start}")
    # hex digit model / format specs
    for v in list(range(0, 300)) + [rnd.randrange(1 << 32) for _ in range(300)]:
        for spec in ("x", "0>2x", "08x", "0>4x", "02x"):
            n += 1
            m = _HEX_SPEC.match(spec)
            width = int(m.group(1) or 1)
            nd = 1
            while v >= (1 << (4 * nd)):
                nd += 1
            nd = max(nd, width)
            s = "".join(chr(_hex_digit_cp((v >> (4 * i)) & 15)) for i in reversed(range(nd)))
            if s != format(v, spec):
                fails.append(f"format({v}, {spec!r}): {s!r} vs {format(v, spec)!r}")
    # bin model
    for v in list(range(0, 70)) + [rnd.randrange(1 << 64) for _ in range(100)]:
        n += 1
        nd = 1
        while v >= (1 << nd):
            nd += 1
        s = "0b" + "".join(chr(48 + ((v >> i) & 1)) for i in reversed(range(nd)))
        if s != bin(v):
            fails.append(f"bin({v})")
    # bit-op sums
    for _ in range(500):
        a = rnd.randrange(-(1 << 40), 1 << 40)
        c = rnd.randrange(0, 1 << 20)
        n += 1
        e_and = sum(((a // (1 << i)) % 2) * (1 << i) for i in range(c.bit_length()) if c >> i & 1)
        e_or = a + sum((1 - ((a // (1 << i)) % 2)) * (1 << i) for i in range(c.bit_length()) if c >> i & 1)
        e_xor = a + sum((1 - 2 * ((a // (1 << i)) % 2)) * (1 << i) for i in range(c.bit_length()) if c >> i & 1)
        if (e_and, e_or, e_xor) != (a & c, a | c, a ^ c):
            fails.append(f"bitop model a={a} c={c}")
    # ascii lower/upper model
    for c in range(128):
        n += 1
        if chr(c + 32 * ((c // 65) - (c // 91))) != chr(c).lower():
            fails.append(f"lower model {c}")
        if chr(c - 32 * ((c // 97) - (c // 123))) != chr(c).upper():
            fails.append(f"upper model {c}")
    return n, fails


def scan_format_specs(repo="/repo/pycomm3"):
    """AST scan of pycomm3 for format specs applied in f-strings; returns the set of
    specs and the subset our int model does not know (informational: unknown specs make
    CrossHair realise, never mis-model)."""
    import ast, os
    specs = set()
    for root, _, files in os.walk(repo):
        for f in files:
            if not f.endswith(".py"):
                continue
            try:
                tree = ast.parse(open(os.path.join(root, f), encoding="utf-8").read())
            except SyntaxError:
                continue
            for node in ast.walk(tree):
                if isinstance(node, ast.FormattedValue) and node.format_spec is not None:
                    parts = node.format_spec.values
                    if all(isinstance(p, ast.Constant) for p in parts):
                        specs.add("".join(p.value for p in parts))
    unknown = {s for s in specs if not (_HEX_SPEC.match(s) or s in ("", "d"))}
    return specs, unknown
