"""Helpers usable from harness code in both modes (symbolic under CrossHair, native on replay)."""
import struct
from vlib import chplugin


def symbolic():
    return chplugin.SYMBOLIC


def mkfloat(bits, width):
    """a REAL/LREAL value with the given IEEE bit pattern: token under the model, C float natively"""
    if chplugin.SYMBOLIC:
        return (chplugin.F32 if width == 4 else chplugin.F64)(bits)
    return struct.unpack("<f" if width == 4 else "<d", bits.to_bytes(width, "little"))[0]


def fbits(x, width):
    """IEEE bit pattern of a float value (token or C float); NaNs collapse to one class natively"""
    if isinstance(x, chplugin.F32):
        return x.bits if x.width == width else -1
    if not isinstance(x, float):
        return -2
    if x != x:
        return "nan"
    return int.from_bytes(struct.pack("<f" if width == 4 else "<d", x), "little")


def same_float(x, bits, width):
    fb = fbits(x, width)
    if fb == "nan":
        exp = (bits >> (23 if width == 4 else 52)) & (0xFF if width == 4 else 0x7FF)
        man = bits & ((1 << (23 if width == 4 else 52)) - 1)
        return exp == (0xFF if width == 4 else 0x7FF) and man != 0
    return fb == bits


def exc_name(e):
    return type(e).__name__


def mkstr(cps):
    """string from a list of (possibly symbolic) code points without forking"""
    if chplugin.SYMBOLIC:
        from crosshair.tracers import NoTracing
        from crosshair.libimpl.builtinslib import LazyIntSymbolicStr
        with NoTracing():
            return LazyIntSymbolicStr(list(cps))
    return "".join(chr(c) for c in cps)


_NT = _SB = _z3 = None


def _lazy():
    global _NT, _SB, _z3
    if _NT is None:
        from crosshair.tracers import NoTracing
        from crosshair.libimpl.builtinslib import SymbolicBool
        import z3
        _NT, _SB, _z3 = NoTracing, SymbolicBool, z3


def sym_and(a, b):
    """non-forking conjunction; builds z3.And directly for CrossHair symbolic bools (their `&` costs ~12 ms)"""
    if a is False or b is False:
        return False
    if a is True:
        return b
    if b is True:
        return a
    if chplugin.SYMBOLIC:
        if _NT is None:
            _lazy()
        with _NT():
            if isinstance(a, _SB) and isinstance(b, _SB):
                return _SB(_z3.And(a.var, b.var))
    return a & b


def sym_or(a, b):
    if a is True or b is True:
        return True
    if a is False:
        return b
    if b is False:
        return a
    if chplugin.SYMBOLIC:
        if _NT is None:
            _lazy()
        with _NT():
            if isinstance(a, _SB) and isinstance(b, _SB):
                return _SB(_z3.Or(a.var, b.var))
    return a | b
