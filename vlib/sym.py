"""Helpers usable from harness code in both modes (symbolic under CrossHair, native on replay)."""
import struct
from vlib import chplugin


def symbolic():
    return chplugin.SYMBOLIC


def mkfloat(bits, width):
    """a REAL/LREAL value with the given IEEE bit pattern: token under the model, C float natively"""
    if chplugin.SYMBOLIC:
        return (chplugin.F32 if width == 4 else chplugin.F64)(bits)
    return struct.unpack("<f" if width == 4 else "<d", bits.to_bytes(width, "little"))[0]


def fbits(x, width):
    """IEEE bit pattern of a float value (token or C float); NaNs collapse to one class natively"""
    if isinstance(x, chplugin.F32):
        return x.bits if x.width == width else -1
    if not isinstance(x, float):
        return -2
    if x != x:
        return "nan"
    return int.from_bytes(struct.pack("<f" if width == 4 else "<d", x), "little")


def same_float(x, bits, width):
    fb = fbits(x, width)
    if fb == "nan":
        exp = (bits >> (23 if width == 4 else 52)) & (0xFF if width == 4 else 0x7FF)
        man = bits & ((1 << (23 if width == 4 else 52)) - 1)
        return exp == (0xFF if width == 4 else 0x7FF) and man != 0
    return fb == bits


def exc_name(e):
    return type(e).__name__


def mkstr(cps):
    """string from a list of (possibly symbolic) code points without forking"""
    if chplugin.SYMBOLIC:
        from crosshair.tracers import NoTracing
        from crosshair.libimpl.builtinslib import LazyIntSymbolicStr
        with NoTracing():
            return LazyIntSymbolicStr(list(cps))
    return "".join(chr(c) for c in cps)
