"""Helpers usable from harness code in both modes (symbolic under CrossHair, native on replay)."""
import struct
from vlib import chplugin


def symbolic():
    return chplugin.SYMBOLIC


def mkfloat(bits, width):
    """a REAL/LREAL value with the given IEEE bit pattern: token under the model, C float natively"""
    if chplugin.SYMBOLIC:
        return (chplugin.F32 if width == 4 else chplugin.F64)(bits)
    return struct.unpack("<f" if width == 4 else "<d", bits.to_bytes(width, "little"))[0]


def fbits(x, width):
    """IEEE bit pattern of a float value (token or C float); NaNs collapse to one class natively"""
    if isinstance(x, chplugin.F32):
        return x.bits if x.width == width else -1
    if not isinstance(x, float):
        return -2
    if x != x:
        return "nan"
    return int.from_bytes(struct.pack("<f" if width == 4 else "<d", x), "little")


def same_float(x, bits, width):
    fb = fbits(x, width)
    if fb == "nan":
        exp = (bits >> (23 if width == 4 else 52)) & (0xFF if width == 4 else 0x7FF)
        man = bits & ((1 << (23 if width == 4 else 52)) - 1)
        return exp == (0xFF if width == 4 else 0x7FF) and man != 0
    return fb == bits


def exc_name(e):
    return type(e).__name__


def mkstr(cps):
    """string from a list of (possibly symbolic) code points without forking"""
    if chplugin.SYMBOLIC:
        from crosshair.tracers import NoTracing
        from crosshair.libimpl.builtinslib import LazyIntSymbolicStr
        with NoTracing():
            return LazyIntSymbolicStr(list(cps))
    return "".join(chr(c) for c in cps)


_NT = _SB = _z3 = None


def _lazy():
    global _NT, _SB, _z3
    if _NT is None:
        from crosshair.tracers import NoTracing
        from crosshair.libimpl.builtinslib import SymbolicBool
        import z3
        _NT, _SB, _z3 = NoTracing, SymbolicBool, z3


def sym_and(a, b):
    """non-forking conjunction.  (`x is True` on a CrossHair symbolic bool FORKS, so concreteness is tested on the real
    class with tracing off; z3.And is built directly because their `&` costs ~12 ms.)"""
    if not chplugin.SYMBOLIC:
        return bool(a) and bool(b)
    if _NT is None:
        _lazy()
    with _NT():
        ca, cb = type(a) is bool, type(b) is bool
        if ca and cb:
            return a and b
        if ca:
            return b if a else False
        if cb:
            return a if b else False
        if isinstance(a, _SB) and isinstance(b, _SB):
            return _SB(_z3.And(a.var, b.var))
    return a & b


def sym_or(a, b):
    if not chplugin.SYMBOLIC:
        return bool(a) or bool(b)
    if _NT is None:
        _lazy()
    with _NT():
        ca, cb = type(a) is bool, type(b) is bool
        if ca and cb:
            return a or b
        if ca:
            return True if a else b
        if cb:
            return True if b else a
        if isinstance(a, _SB) and isinstance(b, _SB):
            return _SB(_z3.Or(a.var, b.var))
    return a | b


def sym_ite(cond, a, b):
    """if-then-else on ints without forking (z3 If for CrossHair symbolic conditions)"""
    if not chplugin.SYMBOLIC:
        return a if cond else b
    if _NT is None:
        _lazy()
    from crosshair.libimpl.builtinslib import SymbolicInt
    with _NT():
        if type(cond) is bool:
            return a if cond else b
        if isinstance(cond, _SB):
            av = a.var if hasattr(a, "var") else _z3.IntVal(int(a))
            bv = b.var if hasattr(b, "var") else _z3.IntVal(int(b))
            return SymbolicInt(_z3.If(cond.var, av, bv))
    return a if cond else b


def hex_value(s):
    """(all characters are lowercase hex digits, integer value) of a (symbolic) string, fork-free and linear"""
    acc, ok = 0, True
    cps = codepoints(s)
    n = len(cps)
    for k in range(n):
        cp = cps[n - 1 - k]
        isdig = sym_and(cp >= 48, cp <= 57)
        isaf = sym_and(cp >= 97, cp <= 102)
        ok = sym_and(ok, sym_or(isdig, isaf))
        acc = acc + (cp - 48 - sym_ite(cp >= 97, 39, 0)) * 16 ** k
    return ok, acc


def codepoints(s):
    """code points of a (symbolic) str without the per-character validity forks of ord()"""
    if chplugin.SYMBOLIC:
        if _NT is None:
            _lazy()
        from crosshair.libimpl.builtinslib import LazyIntSymbolicStr
        with _NT():
            if isinstance(s, LazyIntSymbolicStr):
                return list(s._codepoints)
    return [ord(c) for c in s]


def concrete(x):
    """pin a symbolic value to one concrete value on this path (the engine explores the other values on other paths);
    used deliberately for small enumerated dimensions (DESIGN 2.4)"""
    if chplugin.SYMBOLIC:
        from crosshair.core import realize
        return realize(x)
    return x
