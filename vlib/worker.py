"""Runs ONE obligation (or its reachability twin, or a native replay) in this process and
prints one JSON line.  Invoked by vlib.runner as
    .venv/bin/python -m vlib.worker <harness module> <obligation id> [--twin] [--replay <json args>]
"""
import sys, os, json, time, importlib, inspect, traceback, ast

sys.path.insert(0, os.path.dirname(os.path.dirname(os.path.abspath(__file__))))
sys.setrecursionlimit(10000)


def _load(modname, symbolic):
    if symbolic:
        from vlib import chplugin
        chplugin.install()
    mod = importlib.import_module(modname)
    return mod


def _jsonable(v):
    try:
        json.dumps(v)
        return v
    except Exception:
        return repr(v)


def run_A(ob, twin):
    from crosshair.core import analyze_calltree
    from crosshair.condition_parser import Conditions, ConditionExpr, ConditionExprType, condition_parser
    from crosshair.options import DEFAULT_OPTIONS, AnalysisOptionSet
    from crosshair.statespace import VerificationStatus
    from crosshair.fnutil import resolve_signature
    from crosshair.tracers import NoTracing
    from collections import Counter
    from time import process_time
    from vlib.ob import default_post

    fn = ob.fn
    sig = resolve_signature(fn)
    if isinstance(sig, str):
        raise RuntimeError("cannot resolve signature: " + sig)
    names = list(sig.parameters)
    fname = inspect.getsourcefile(fn) or "<harness>"
    try:
        line = inspect.getsourcelines(fn)[1]
    except Exception:
        line = 0
    captured = {}

    def capture(bound, ret, overrides):
        captured["args"] = {k: repr(v) for k, v in bound.arguments.items()}
        captured["ret"] = repr(ret)
        return (fn.__name__ + "(" + ", ".join(f"{k}={v}" for k, v in captured["args"].items()) + ")", repr(ret))

    pre = []
    if ob.pre is not None:
        pre_fn = ob.pre
        pre.append(ConditionExpr(ConditionExprType.PRECONDITION,
                                 lambda l: pre_fn(**{k: l[k] for k in names}), fname, line, "pre"))
    if twin:
        post_eval = lambda l: False
    else:
        post_fn = ob.post or default_post
        post_eval = lambda l: post_fn(l["__return__"], **{k: l[k] for k in names})
    post = [ConditionExpr(ConditionExprType.POSTCONDITION, post_eval, fname, line, "twin: False" if twin else "post")]
    conds = Conditions(fn=fn, src_fn=fn, pre=pre, post=post, raises=frozenset(), sig=sig, mutable_args=None,
                       fn_syntax_messages=[], counterexample_description_maker=capture)
    timeout = min(ob.timeout, max(90.0, 0.4 * ob.timeout)) if twin else ob.timeout
    options = DEFAULT_OPTIONS.overlay(AnalysisOptionSet(per_condition_timeout=timeout,
                                                        per_path_timeout=max(ob.path_timeout, ob.timeout / 4.0)))
    options.stats = Counter()
    options.deadline = process_time() + timeout
    t0, c0 = time.time(), process_time()
    with condition_parser(options.analysis_kind):
        analysis = analyze_calltree(options, conds)
    st = analysis.verification_status
    res = {
        "paths": int(options.stats.get("num_paths", 0)),
        "confirmed_paths": int(analysis.num_confirmed_paths),
        "cpu_s": round(process_time() - c0, 3),
        "wall_s": round(time.time() - t0, 3),
        "messages": [f"{m.state.name}: {m.message}" for m in analysis.messages][:3],
    }
    if st is VerificationStatus.CONFIRMED:
        res["status"] = "confirmed"
    elif st is VerificationStatus.REFUTED:
        kinds = {m.state.name for m in analysis.messages}
        if "PRE_UNSAT" in kinds and not captured:
            res["status"] = "inconclusive"
            res["why"] = "unable to meet precondition"
        else:
            res["status"] = "refuted"
            res["cex"] = captured.get("args")
            res["ret"] = captured.get("ret")
            res["exec_err"] = "EXEC_ERR" in kinds or "POST_ERR" in kinds
            if res["exec_err"]:
                res["traceback"] = (analysis.messages[0].traceback or "")[-1500:]
    else:
        res["status"] = "inconclusive"
        res["why"] = "not confirmed within budget (paths not exhausted)"
    return res


def run_replay(ob, args):
    """native re-run of the harness with concrete arguments: real struct, real BytesIO."""
    from vlib.ob import default_post
    kw = {k: ast.literal_eval(v) for k, v in args.items()}
    if ob.pre is not None and not ob.pre(**kw):
        return {"status": "replay", "reproduced": False, "why": "precondition false on replay"}
    try:
        ret = ob.fn(**kw)
    except Exception as e:
        return {"status": "replay", "reproduced": False, "harness_error": True,
                "why": "harness raised natively: " + repr(e), "traceback": traceback.format_exc()[-1500:]}
    ok = bool((ob.post or default_post)(ret, **kw))
    return {"status": "replay", "reproduced": not ok, "ret": repr(ret)}


def main(argv):
    modname, obid = argv[0], argv[1]
    twin = "--twin" in argv
    replay = None
    if "--replay" in argv:
        replay = json.loads(argv[argv.index("--replay") + 1])
    out = {"id": obid, "twin": twin}
    t0 = time.time()
    try:
        mod = _load(modname, symbolic=(replay is None))
        ob = mod.REG.obs[obid]
        # the module-level tables (vendor list, uploaded tag databases, harness closures) are immutable from here on: keep the
        # cyclic GC from re-traversing them on every collection (measured: 50 ms pauses attributed to whatever allocates)
        import gc
        gc.collect()
        gc.freeze()
        gc.set_threshold(20000, 20, 20)
        out["engine"] = ob.engine
        if replay is not None:
            if ob.engine == "A":
                out.update(run_replay(ob, replay))
            else:
                out.update({"status": "replay", "reproduced": bool(ob.fn(replay=replay).get("reproduced"))})
        elif ob.engine == "A":
            out.update(run_A(ob, twin))
            if not twin and ob.twin and out.get("status") == "confirmed":
                # reachability twin in the same process (saves a 3 s interpreter start)
                out["twin_result"] = run_A(ob, True)
        else:
            r = ob.fn()
            out.update(r)
            out.setdefault("wall_s", round(time.time() - t0, 3))
    except BaseException as e:  # noqa
        out["status"] = "error"
        out["why"] = repr(e)
        out["traceback"] = traceback.format_exc()[-3000:]
    out.setdefault("wall_s", round(time.time() - t0, 3))
    sys.stdout.write("\n@@RESULT@@" + json.dumps(out, default=repr) + "\n")
    sys.stdout.flush()


if __name__ == "__main__":
    main(sys.argv[1:])
