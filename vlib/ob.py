"""Obligation records shared by harness modules, worker and runner."""
from dataclasses import dataclass, field
from typing import Any, Callable, Dict, List, Optional


@dataclass
class Ob:
    id: str                      # unique within a property, e.g. "rt/DINT"
    fn: Callable                 # Engine A: harness with annotated symbolic args, returns a verdict value
                                 # Engine B / native: zero-arg callable returning a result dict
    engine: str = "A"            # "A" CrossHair | "B" bvsym->z3 | "N" native concrete (validation only)
    pre: Optional[Callable] = None    # pre(**args) -> bool   (Engine A)
    post: Optional[Callable] = None   # post(ret, **args) -> bool; default: ret == "ok"
    timeout: float = 60.0        # per-condition CPU budget (s)
    path_timeout: float = 30.0
    tier: str = "quick"          # lowest tier that includes this obligation
    twin: bool = True            # run the reachability twin (post: False must be refuted)
    desc: str = ""               # what is symbolic / bounds, for the evidence samples
    funcs: List[str] = field(default_factory=list)   # pycomm3 functions encoded
    known: Optional[str] = None  # id of a known_findings.json entry this obligation is the witness of
    weight: float = 1.0          # scheduling hint (bigger first)


def default_post(ret, **kw):
    return ret == "ok"


class Registry:
    def __init__(self, prop):
        self.prop = prop
        self.obs: Dict[str, Ob] = {}

    def add(self, id, fn, **kw):
        if id in self.obs:
            raise ValueError("duplicate obligation id " + id)
        ob = Ob(id=id, fn=fn, **kw)
        self.obs[id] = ob
        return ob

    def __iter__(self):
        return iter(self.obs.values())
