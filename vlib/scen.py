"""Driver-level scenario support (DESIGN.md section 3): fake socket wired to the reference
target, driver construction, standard controller projects."""
import logging
from vlib.ref import eip
from vlib.ref import logix as RL
from vlib.ref.logix import Member, Template, Symbol, Target

logging.disable(logging.CRITICAL)


class FaultInjected(OSError):
    pass


class FakeSocket:
    """stands for pycomm3.socket_.Socket: send(msg) hands one frame to the target, receive() returns its reply.
    Every frame is checked by the strict reference parser (C11).  fault_at = k: the k-th I/O operation
    (1-based, sends and receives counted together) fails; fault_kind 'raise' | 'vanish' (peer gone: every later I/O fails)."""

    def __init__(self, target, fault_at=None, fault_kind="raise"):
        self.target = target
        self.sent = []
        self.frame_errors = []
        self.reply = None
        self.ops = 0
        self.fault_at = fault_at
        self.fault_kind = fault_kind
        self.dead = False
        self.closed = False
        self.connected_to = None
        self.parsed = []
        self._granted = []
        self.held_at_close = None

    def _op(self):
        self.ops += 1
        if self.dead or (self.fault_at is not None and self.ops == self.fault_at):
            if self.fault_kind == "vanish":
                self.dead = True
                self.target.reachable = False
            raise FaultInjected("injected transport fault at I/O #%d" % self.ops)

    def connect(self, host, port):
        self.connected_to = (host, port)

    def send(self, msg, timeout=0):
        self._op()
        self.sent.append(msg)
        try:
            self.parsed.append(eip.parse_request(msg))
        except eip.FrameError as e:
            self.frame_errors.append(str(e))
            self.parsed.append(None)
        before = list(self.target.sessions)
        r = self.target.handle(msg)
        for x in self.target.sessions:
            if x not in before:
                self._granted.append(x)
        self.reply = None if r is None else bytes(r)
        return len(msg)

    def receive(self, timeout=0):
        self._op()
        r, self.reply = self.reply, None
        if r is None:
            raise FaultInjected("no reply pending")
        return r

    def close(self):
        """closing the TCP connection ends the sessions registered over it (and their CIP connections) in the target;
        what the target still held at that moment is recorded so that a check can require the client to have released it itself"""
        self.closed = True
        t = self.target
        mine = [p["session"] for p in self.parsed if p is not None and p["command"] in (0x6F, 0x70, 0x66)] + list(getattr(self, "registered", []))
        held_s = [x for x in t.sessions if x in self.sessions_seen()]
        held_c = [c for c, v in t.connections.items() if v["session"] in self.sessions_seen()]
        self.held_at_close = (list(held_s), list(held_c))
        if t.reachable:
            for x in held_s:
                t.sessions.remove(x)
            for c in held_c:
                del t.connections[c]

    def sessions_seen(self):
        """session handles the target granted over this socket"""
        return self._granted


def make_driver(target, cls=None, path="10.0.0.1", cs=4000, connected=True, tags=None, data_types=None, micro800=False, rev=None, sock=None,
                use_instance_ids=None):
    """a driver constructed directly in the state 'session registered, Forward Open done'"""
    from pycomm3 import LogixDriver
    cls = cls or LogixDriver
    kw = {"init_tags": False} if issubclass(cls, LogixDriver) else {}
    d = cls(path, **kw)
    d._sock = sock or FakeSocket(target)
    if connected:
        sess = target.next_session
        target.next_session += 1
        target.sessions.append(sess)
        d._session = sess
        d._connection_opened = True
        cid = (0x01, 0x02, 0x03, 0x04)
        target.connections[cid] = {"size": cs, "serial": (tuple(d._cfg["csn"]), tuple(d._cfg["vid"]), tuple(d._cfg["vsn"])), "last_seq": None,
                                   "last_reply": None, "o_t_cid": list(d._cfg["cid"]), "large": cs > 511, "session": sess, "route": []}
        d._target_cid = bytes(cid)
        d._target_is_connected = True
        d._cfg["connection_size"] = cs
        d._cfg["extended forward open"] = cs > 511
    if issubclass(cls, LogixDriver):
        major = rev if rev is not None else target.identity["major"]
        d._info = {"revision": {"major": major, "minor": 1}, "name": target.program_name}
        d._micro800 = micro800
        d._cfg["use_instance_ids"] = (major >= 21 and not micro800) if use_instance_ids is None else use_instance_ids
        if tags is not None:
            d._tags = tags
        if data_types is not None:
            d._data_types = data_types
    return d


def upload(target, program="*", rev=None, cs=4000):
    """run pycomm3's real tag upload natively against the target -> (tags, data_types, info)"""
    d = make_driver(target, cs=cs, rev=rev)
    d.get_tag_list(program=program)
    return d._tags, d._data_types, d._info


# ----------------------------------------------------------------------------- standard project
def udt1():
    return Template(0x123, "UDT1", 16, [
        Member("a", 0xC4, 0),
        Member("ZZZZZZZZZZUDT1_4", 0xC2, 4),
        Member("b0", 0xC1, 4, bit=0),
        Member("b1", 0xC1, 4, bit=1),
        Member("arr", 0xC3, 6, array=2),
        Member("r", 0xCA, 12),
    ])


def std_templates():
    t1 = udt1()
    outer = Template(0x124, "OUTER", 20, [Member("inner", t1, 0), Member("s", 0xC2, 16), Member("w", 0xC3, 18)])
    str8 = Template(0x125, "STR8", 12, [Member("LEN", 0xC4, 0), Member("DATA", 0xC2, 4, array=8)])
    string = Template(0xFCE, "STRING", 88, [Member("LEN", 0xC4, 0), Member("DATA", 0xC2, 4, array=82)])
    return t1, outer, str8, string


def odd_string_templates():
    """string types whose capacity is not a multiple of 4: the structure is padded to a 32-bit boundary"""
    str5 = Template(0x126, "STR5", 12, [Member("LEN", 0xC4, 0), Member("DATA", 0xC2, 4, array=5)])
    str7 = Template(0x127, "STR7", 12, [Member("LEN", 0xC4, 0), Member("DATA", 0xC2, 4, array=7)])
    return str5, str7


def std_project(mem=None, **kw):
    """the standard controller project.  mem: {tag name: [bytes]} memory images (may hold symbolic ints)"""
    t1, outer, str8, string = std_templates()
    str5, str7 = odd_string_templates()
    mem = mem or {}
    S = lambda name, iid, typ, dims=(), **k: Symbol(name, iid, typ, dims, mem=mem.get(name), **k)
    syms = [
        S("D1", 1, 0xC4), S("I1", 2, 0xC3), S("S1", 3, 0xC2), S("L1", 4, 0xC5), S("R1", 5, 0xCA), S("B1", 6, 0xC1), S("LR1", 7, 0xCB),
        S("DA", 10, 0xC4, (4,)), S("I2", 11, 0xC3, (2, 3)), S("S3", 12, 0xC2, (2, 2, 2)), S("BA", 13, 0xD3, (2,)),
        S("U1", 20, t1), S("UA", 21, t1, (2,)), S("O1", 22, outer), S("ST", 23, str8), S("SS", 24, string),
        S("Program:Main", 30, 0x68, system=False), S("PD", 31, 0xC4, program="Main"), S("PU", 32, t1, program="Main"),
        S("Routine:R1", 33, 0x6D, program="Main"),
        S("S5", 25, str5), S("S5A", 26, str5, (3,)), S("S7", 27, str7),
    ]
    return Target(symbols=syms, templates=(t1, outer, str8, string, str5, str7), **kw)
