"""C08  Codec failures are DataError: never foreign, silent or non-terminating."""
from io import BytesIO
from vlib.ob import Registry
from vlib import tspec as S
from vlib.ref import codec as R
from vlib.sym import mkfloat
from vlib.chplugin import Hang
import pycomm3.cip.data_types as dt
import pycomm3.custom_types as ct
from pycomm3.exceptions import DataError, BufferEmptyError
from harness.C06 import INT_TYPES, mk_structtag

REG = Registry("C08")
BOUNDS = {"quick": {"out-of-range ints": "UNBOUNDED symbolic ints outside the domain", "truncation": "every cut of encodings <= 16 bytes",
                    "arbitrary bytes": "<= 6 symbolic bytes into every decoder", "wrong Python types": "finite class list, co-arguments symbolic"},
          "thorough": {"arbitrary bytes": "<= 9 symbolic bytes", "truncation": "encodings <= 32 bytes"}}
OUTSIDE = ["longer inputs", "objects with hostile __len__/__iter__", "EPATH.decode / CIPSegment.decode (documented as not implemented)",
           "zero-width element types in unbounded arrays (cannot be built from the exported constructors with a documented meaning)"]
ASSUMPTIONS = ["termination: the stream model raises Hang after 4*len+64 reads; CrossHair's per-path timeout is the second net"]
TRUSTED = ["reference layout offsets (vlib.tspec.leaf_starts) decide where BufferEmptyError is acceptable"]
F = ["data_types.DataType.encode", "data_types.DataType.decode", "data_types.DataType._stream_read"]


def verdict(fn):
    """name of the exception class, 'value' if the call returned, 'Hang' on non-termination"""
    try:
        fn()
        return "value"
    except Exception as e:
        return type(e).__name__
    except Hang:
        return "Hang"


# ------------------------------------------------------------------ out-of-range integers (unbounded)
def _mk_oor(T):
    def h(v: int) -> str:
        return verdict(lambda: T.encode(v))
    return h


for T in INT_TYPES:
    n, signed = S.int_info(T)
    REG.add(f"oor/{T.__name__}", _mk_oor(T), pre=lambda v, n=n, signed=signed: not R.in_domain(v, n, signed),
            post=lambda r, **kw: r == "DataError", desc="unbounded symbolic int outside the type's range", funcs=F)


def dat_oor(t: int, d: int) -> str:
    return verdict(lambda: dt.DATE_AND_TIME.encode(t, d))


REG.add("oor/DATE_AND_TIME", dat_oor, pre=lambda t, d: not (0 <= t < 2**32 and 0 <= d < 2**16), post=lambda r, **kw: r == "DataError",
        desc="time or date outside UDINT/UINT, unbounded", funcs=["data_types.DATE_AND_TIME.encode"])


def stringn_cs(cs: int, a: int) -> str:
    return verdict(lambda: dt.STRINGN.encode(chr(a), cs))


REG.add("oor/STRINGN-char-size", stringn_cs, pre=lambda cs, a: cs not in (1, 2, 4) and -10**9 < cs < 10**9 and 0 <= a < 128, post=lambda r, **kw: r == "DataError",
        desc="unsupported character size, |cs| < 10^9 (the error message renders it in decimal: one path per digit count)", funcs=["data_types.STRINGN.encode"])


def stringn_dec_cs(cs: int, a: int) -> str:
    return verdict(lambda: dt.STRINGN.decode(bytes(R.le(cs, 2) + [1, 0, a, 0, 0, 0])))


REG.add("malformed/STRINGN-char-size", stringn_dec_cs, pre=lambda cs, a: 0 <= cs < 65536 and cs not in (1, 2, 4) and 0 <= a < 128,
        post=lambda r, **kw: r == "DataError", desc="all unsupported char-size words", funcs=["data_types.STRINGN._decode"])


# ------------------------------------------------------------------ unencodable characters
def _mk_badchar(T, pos):
    def h(c: int, o: int) -> str:
        s = [chr(o), chr(o)]
        s[pos] = chr(c)
        return verdict(lambda: T.encode("".join(s)))
    return h


for T in (dt.SHORT_STRING, dt.STRING, dt.LOGIX_STRING):
    for pos in (0, 1):
        REG.add(f"badchar/{T.__name__}/pos{pos}", _mk_badchar(T, pos), pre=lambda c, o: 256 <= c < 0x110000 and not (0xD800 <= c < 0xE000) and 0 <= o < 256,
                post=lambda r, **kw: r == "DataError", desc="one symbolic non-Latin-1 code point", funcs=["data_types.StringDataType._encode"])


def _mk_fss_badchar():
    def h(c: int) -> str:
        return verdict(lambda: ct.FixedSizeString(4).encode("a" + chr(c)))
    return h


REG.add("badchar/FixedSizeString", _mk_fss_badchar(), pre=lambda c: 256 <= c < 0xD800, post=lambda r, **kw: r == "DataError",
        desc="one symbolic non-Latin-1 code point", funcs=["custom_types.FixedSizeString._encode"])


def short_string_too_long(n: int) -> str:
    return verdict(lambda: dt.SHORT_STRING.encode("x" * n))


REG.add("oor/SHORT_STRING-length", short_string_too_long, pre=lambda n: 256 <= n <= 300, post=lambda r, **kw: r == "DataError",
        desc="string longer than the 1-byte length prefix can express (256..300 chars)", funcs=["data_types.StringDataType._encode"], timeout=120)

# ------------------------------------------------------------------ wrong Python types (finite class list; co-arguments symbolic where any)
WRONG_FOR_INT = {"None": None, "str": "5", "float": 1.5, "list": [1], "bytes": b"\x01", "tuple": (1, 2), "dict": {"a": 1}}
WRONG_FOR_STR = {"None": None, "int": 5, "bytes": b"ab", "list": ["a"], "float": 1.0}
WRONG_FOR_SEQ = {"None": None, "int": 5, "float": 2.5}


def _mk_wrong(T, bad):
    def run(replay=None):
        r = verdict(lambda: T.encode(bad))
        ok = r == "DataError"
        if replay is not None:
            return {"reproduced": not ok}
        if ok:
            return {"status": "confirmed", "queries": 0}
        return {"status": "refuted", "cex": {"type": repr(T), "value": repr(bad)}, "reproduced": True,
                "detail": f"{T!r}.encode({bad!r}) -> {r} instead of DataError"}
    return run


for T in INT_TYPES + [dt.REAL, dt.LREAL]:
    for nm, bad in WRONG_FOR_INT.items():
        if T in (dt.REAL, dt.LREAL) and nm == "float":
            continue
        REG.add(f"wrongtype/{T.__name__}/{nm}", _mk_wrong(T, bad), engine="N", twin=False, desc=f"{T.__name__}.encode({bad!r})", funcs=F)
for T in (dt.SHORT_STRING, dt.STRING, dt.LOGIX_STRING, dt.STRING2, ct.FixedSizeString(8)):
    for nm, bad in WRONG_FOR_STR.items():
        REG.add(f"wrongtype/{T.__name__}{'8' if T.__name__ == 'FixedSizeString' else ''}/{nm}", _mk_wrong(T, bad), engine="N", twin=False,
                desc=f"{T.__name__}.encode({bad!r})", funcs=F)
_S1 = dt.Struct(dt.UINT("a"), dt.SINT("b"))
for nm, bad in dict(WRONG_FOR_SEQ, missing_key={"a": 1}, short_seq=[1], str_="ab").items():
    REG.add(f"wrongtype/Struct/{nm}", _mk_wrong(_S1, bad), engine="N", twin=False, desc=f"Struct(UINT a, SINT b).encode({bad!r})",
            funcs=["data_types.Struct._encode"])
for A, an in ((dt.INT[3], "INT[3]"), (dt.INT[dt.USINT], "INT[USINT]"), (dt.INT[None], "INT[None]"), (dt.DWORD[1], "DWORD[1]")):
    extra = {} if an == "DWORD[1]" else dict(strs=["a", "b", "c"], nested=[[1], [2], [3]])
    for nm, bad in dict(WRONG_FOR_SEQ, **extra).items():
        REG.add(f"wrongtype/{an}/{nm}", _mk_wrong(A, bad), engine="N", twin=False, desc=f"{an}.encode({bad!r})", funcs=["data_types.Array.encode"])
# known finding (known_findings.json: C08-bitarray-short): fewer bools than the fixed bit-string array holds are encoded silently
REG.add("short-array/DWORD[1]/3-bools", _mk_wrong(dt.DWORD[1], [True, False, True]), engine="N", twin=False, known="C08-bitarray-short",
        desc="DWORD[1].encode of 3 bools", funcs=["data_types.Array.encode"])
for T in (dt.BYTE, dt.WORD, dt.DWORD, dt.LWORD):
    for nm, bad in dict(WRONG_FOR_SEQ, short=[True] * (T.size * 8 - 1), long=[False] * (T.size * 8 + 1), empty=[]).items():
        REG.add(f"wrongtype/{T.__name__}/{nm}", _mk_wrong(T, bad), engine="N", twin=False, desc=f"{T.__name__}.encode(<{nm}>)",
                funcs=["data_types.BitArrayType._encode"])


def _mk_wrong_call(name, call):
    def run(replay=None):
        r = verdict(call)
        ok = r == "DataError"
        if replay is not None:
            return {"reproduced": not ok}
        return {"status": "confirmed", "queries": 0} if ok else {"status": "refuted", "cex": {"call": name}, "reproduced": True,
                                                                  "detail": f"{name} -> {r} instead of DataError"}
    return run


for name, call in {
    "EPATH.encode([5])": lambda: dt.EPATH.encode([5]),
    "EPATH.encode(None)": lambda: dt.EPATH.encode(None),
    "PADDED_EPATH.encode([LogicalSegment(2**32,'class_id')])": lambda: dt.PADDED_EPATH.encode([dt.LogicalSegment(2**32, "class_id")]),
    "PADDED_EPATH.encode([LogicalSegment(1,'bogus')])": lambda: dt.PADDED_EPATH.encode([dt.LogicalSegment(1, "bogus")]),
    "PADDED_EPATH.encode([LogicalSegment(b'abc','class_id')])": lambda: dt.PADDED_EPATH.encode([dt.LogicalSegment(b"abc", "class_id")]),
    "PADDED_EPATH.encode([LogicalSegment(-1,'class_id')])": lambda: dt.PADDED_EPATH.encode([dt.LogicalSegment(-1, "class_id")]),
    "PortSegment.encode(PortSegment('nope', 1))": lambda: dt.PortSegment.encode(dt.PortSegment("nope", 1)),
    "PortSegment.encode(PortSegment('bp', 256))": lambda: dt.PortSegment.encode(dt.PortSegment("bp", 256)),
    "PortSegment.encode(PortSegment('bp', 'x.y'))": lambda: dt.PortSegment.encode(dt.PortSegment("bp", "x.y")),
    "PortSegment.encode(PortSegment(None, None))": lambda: dt.PortSegment.encode(dt.PortSegment(None, None)),
    "DataSegment.encode(DataSegment(5))": lambda: dt.DataSegment.encode(dt.DataSegment(5)),
    "STRINGI.encode(5)": lambda: dt.STRINGI.encode(5),
    "STRINGI.encode(('a', STRING, 'e\\u20ac', 4))": lambda: dt.STRINGI.encode(("a", dt.STRING, "e€g", 4)),
    "STRINGN.encode(None)": lambda: dt.STRINGN.encode(None),
    "DATE_AND_TIME.encode(None, None)": lambda: dt.DATE_AND_TIME.encode(None, None),
    "IPAddress.encode('1.2.3')": lambda: ct.IPAddress.encode("1.2.3"),
    "IPAddress.encode(None)": lambda: ct.IPAddress.encode(None),
    "ModuleIdentityObject.encode({})": lambda: ct.ModuleIdentityObject.encode({}),
    "StructTag.encode({})": lambda: mk_structtag().encode({}),
    "StructTag.encode(None)": lambda: mk_structtag().encode(None),
    "n_bytes(2).encode(5)": lambda: type(dt.n_bytes(2)).encode(5),
}.items():
    REG.add("wrongtype/" + name, _mk_wrong_call(name, call), engine="N", twin=False, desc=name, funcs=F)


# ------------------------------------------------------------------ too few elements for a fixed array
def _mk_short_array(T, n, signed, have):
    def h(a: int, b: int) -> str:
        return verdict(lambda: T[3].encode([a, b][:have]))
    return h


for T in (dt.INT, dt.UDINT):
    n, signed = S.int_info(T)
    for have in (0, 1, 2):
        REG.add(f"short-array/{T.__name__}[3]/{have}", _mk_short_array(T, n, signed, have),
                pre=lambda a, b, n=n, signed=signed: R.in_domain(a, n, signed) and R.in_domain(b, n, signed),
                post=lambda r, **kw: r == "DataError", desc=f"{have} symbolic elements for a 3-array", funcs=["data_types.Array.encode"])


# ------------------------------------------------------------------ truncation of valid encodings
def add_trunc(spec, tier="quick", timeout=120):
    k = S.nvars(spec)
    T = S.pytype(spec)
    L = S.wire_len(spec)
    starts, _ = S.leaf_starts(spec)

    def body(xs, cut):
        try:
            v, _ = S.value(spec, xs)
            enc = bytes(T.encode(v))
        except Exception as e:
            return "encode:" + type(e).__name__
        return verdict(lambda: T.decode(enc[:cut]))

    def post(r, **kw):
        cut = kw["cut"]
        return r == "DataError" or (r == "BufferEmptyError" and cut in starts)
    fn = S.vec_fn(k, body, extra=(("cut", int),))
    pre = S.vec_pre(k, lambda xs, cut: S.domain(spec, xs)[0] and 0 <= cut < L, extra=(("cut", int),))
    REG.add("trunc/" + S.describe(spec), fn, pre=pre, post=post, tier=tier, timeout=timeout,
            desc=f"symbolic valid value, every cut 0..{L - 1} of its {L}-byte encoding", funcs=F)


_inner = ("struct", [("x", ("int", dt.INT)), ("y", ("int", dt.UDINT))])
TRUNC = [("int", T) for T in (dt.SINT, dt.INT, dt.DINT, dt.LINT, dt.USINT, dt.UINT, dt.UDINT, dt.ULINT)] + [
    ("bool",), ("real", 4), ("real", 8), ("bytes", 3),
    ("str", dt.SHORT_STRING, 2, 1), ("str", dt.STRING, 2, 1), ("str", dt.LOGIX_STRING, 2, 1), ("str", dt.STRING2, 2, 2),
    ("struct", [("a", ("int", dt.UINT)), ("b", ("int", dt.SINT)), ("c", ("int", dt.DINT))]),
    ("struct", [("n", ("int", dt.USINT)), ("inner", _inner), ("s", ("str", dt.SHORT_STRING, 2, 1))]),
    ("array", ("int", dt.INT), 3), ("array", _inner, 2), ("array", ("str", dt.SHORT_STRING, 1, 1), 2)]
for sp in TRUNC:
    add_trunc(sp)
for sp in (("array", ("int", dt.LINT), 4), ("array", _inner, 4), ("str", dt.STRING, 5, 1),
           ("struct", [("h", ("int", dt.LINT)), ("in2", ("struct", [("i", _inner), ("t", ("str", dt.STRING, 1, 1))])), ("z", ("array", ("int", dt.UDINT), 2))])):
    add_trunc(sp, tier="thorough", timeout=400)


def _mk_trunc_fss(cap):
    def h(a: int, b: int, cut: int) -> str:
        T = ct.FixedSizeString(cap)
        enc = bytes(T.encode(chr(a) + chr(b)))
        return verdict(lambda: T.decode(enc[:cut]))
    return h


for cap in (2, 6):
    REG.add(f"trunc/FixedSizeString({cap})", _mk_trunc_fss(cap), pre=lambda a, b, cut, cap=cap: 0 <= a < 256 and 0 <= b < 256 and 0 <= cut < 4 + cap,
            post=lambda r, **kw: r == "DataError" or (r == "BufferEmptyError" and kw["cut"] in (0, 4)),
            desc=f"every cut of a capacity-{cap} Logix string", funcs=["custom_types.FixedSizeString._decode"])


def trunc_structtag(a: int, e0: int, cut: int) -> str:
    T = mk_structtag()
    enc = bytes(T.encode({"a": a, "f0": True, "f1": False, "arr": [e0, 7], "r": mkfloat(0x3F800000, 4)}))
    return verdict(lambda: T.decode(enc[:cut]))


REG.add("trunc/StructTag", trunc_structtag, pre=lambda a, e0, cut: -2**31 <= a < 2**31 and -2**15 <= e0 < 2**15 and 0 <= cut < 16,
        post=lambda r, **kw: r == "DataError" or (r == "BufferEmptyError" and kw["cut"] in (0, 4, 5, 6, 8, 10, 11, 12)),
        desc="every cut of a 16-byte template image (BufferEmptyError also where only padding precedes the next member)", funcs=["custom_types.StructTag._decode"], timeout=180)


def trunc_dat(t: int, d: int, cut: int) -> str:
    enc = dt.DATE_AND_TIME.encode(t, d)
    return verdict(lambda: dt.DATE_AND_TIME.decode(enc[:cut]))


REG.add("trunc/DATE_AND_TIME", trunc_dat, pre=lambda t, d, cut: 0 <= t < 2**32 and 0 <= d < 2**16 and 0 <= cut < 6,
        post=lambda r, **kw: r == "DataError" or (r == "BufferEmptyError" and kw["cut"] in (0, 4)), desc="every cut", funcs=["data_types.DATE_AND_TIME._decode"])


def _mk_trunc_stringn(cs):
    def h(a: int, b: int, cut: int) -> str:
        enc = dt.STRINGN.encode(chr(a) + chr(b), cs)
        return verdict(lambda: dt.STRINGN.decode(enc[:cut]))
    return h


for cs in (1, 2, 4):
    REG.add(f"trunc/STRINGN/char{cs}", _mk_trunc_stringn(cs), pre=lambda a, b, cut, cs=cs: 0 <= a < 128 and 0 <= b < 128 and 0 <= cut < 4 + 2 * cs,
            post=lambda r, **kw: r == "DataError" or (r == "BufferEmptyError" and kw["cut"] in (0, 2, 4)), desc="every cut", funcs=["data_types.STRINGN._decode"])


def trunc_stringi(a: int, cut: int) -> str:
    enc = dt.STRINGI.encode((chr(a) + "z", dt.STRING, "eng", 4), ("q", dt.SHORT_STRING, "deu", 4))
    return verdict(lambda: dt.STRINGI.decode(enc[:cut]))


REG.add("trunc/STRINGI", trunc_stringi, pre=lambda a, cut: 0 <= a < 256 and 0 <= cut < 19,
        post=lambda r, **kw: r == "DataError" or (r == "BufferEmptyError" and kw["cut"] in (0, 1, 4, 5, 7, 9, 11, 14, 15, 17, 18)),
        desc="every cut of a two-string STRINGI", funcs=["data_types.STRINGI.decode"], timeout=180)


def trunc_ip(a: int, cut: int) -> str:
    return verdict(lambda: ct.IPAddress.decode(bytes([a, 2, 3, 4])[:cut]))


REG.add("trunc/IPAddress", trunc_ip, pre=lambda a, cut: 0 <= a < 256 and 0 <= cut < 4,
        post=lambda r, **kw: r == "DataError" or (r == "BufferEmptyError" and kw["cut"] == 0), desc="every cut", funcs=["custom_types.IPAddress._decode"])


# ------------------------------------------------------------------ unbounded arrays: whole / partial trailing element
def _mk_unbounded_partial(T, w):
    def h(b: bytes) -> str:
        r = verdict(lambda: T[None].decode(b))
        return r
    return h


for T, w in ((dt.UINT, 2), (dt.DINT, 4)):
    for ln in range(1, 7):
        if ln % w:
            REG.add(f"unbounded-partial/{T.__name__}[None]/len{ln}", _mk_unbounded_partial(T, w), pre=lambda b, ln=ln: len(b) == ln,
                    post=lambda r, **kw: r == "DataError", desc=f"{ln} symbolic bytes (not a whole number of elements)", funcs=["data_types.Array._decode_all"])


def _mk_unbounded_whole(T, w, cnt):
    def h(b: bytes) -> str:
        try:
            d = T[None].decode(b)
            if len(d) != cnt:
                return "count"
            for i in range(cnt):
                if d[i] != R.from_le(list(b[w * i:w * i + w]), T in (dt.DINT,)):
                    return "value"
            return "ok"
        except Exception as e:
            return type(e).__name__
        except Hang:
            return "Hang"
    return h


for T, w in ((dt.UINT, 2), (dt.DINT, 4)):
    for cnt in (0, 1, 2):
        REG.add(f"unbounded-whole/{T.__name__}[None]/{cnt}", _mk_unbounded_whole(T, w, cnt), pre=lambda b, ln=cnt * w: len(b) == ln,
                desc=f"{cnt * w} symbolic bytes decode to exactly {cnt} elements", funcs=["data_types.Array._decode_all"])

# ------------------------------------------------------------------ arbitrary bytes into every decoder
DECODERS = {
    "SINT": dt.SINT, "INT": dt.INT, "DINT": dt.DINT, "LINT": dt.LINT, "USINT": dt.USINT, "UINT": dt.UINT, "UDINT": dt.UDINT, "ULINT": dt.ULINT,
    "BOOL": dt.BOOL, "REAL": dt.REAL, "LREAL": dt.LREAL, "DATE_AND_TIME": dt.DATE_AND_TIME, "STRING": dt.STRING, "SHORT_STRING": dt.SHORT_STRING,
    "LOGIX_STRING": dt.LOGIX_STRING, "STRING2": dt.STRING2, "STRINGN": dt.STRINGN, "STRINGI": dt.STRINGI,
    "n_bytes(3)": type(dt.n_bytes(3)), "n_bytes(-1)": type(dt.n_bytes(-1)),
    "INT[2]": dt.INT[2], "INT[USINT]": dt.INT[dt.USINT], "UINT[None]": dt.UINT[None], "SHORT_STRING[None]": dt.SHORT_STRING[None],
    "Struct(UINT,SHORT_STRING,SINT)": dt.Struct(dt.UINT("a"), dt.SHORT_STRING("s"), dt.SINT("b")),
    "IPAddress": ct.IPAddress, "Revision": ct.Revision, "FixedSizeString(2)": ct.FixedSizeString(2), "StructTag": mk_structtag(),
    "StructTemplateAttributes": ct.StructTemplateAttributes,
}
ALLOWED = ("value", "DataError", "BufferEmptyError")


def _mk_garbage(T):
    def h(b: bytes) -> str:
        return verdict(lambda: T.decode(b))
    return h


def _garbage_pre(nm, ln):
    if nm == "FixedSizeString(2)" and ln >= 5:
        # the LEN word becomes a slice bound (realised by the engine): low byte 0..7 symbolic, upper bytes zero
        return lambda b: len(b) == ln and b[0] < 8 and b[1] == 0 and b[2] == 0 and b[3] == 0
    return lambda b: len(b) == ln


for nm, T in DECODERS.items():
    for ln in range(0, 7):
        REG.add(f"garbage/{nm}/len{ln}", _mk_garbage(T), pre=_garbage_pre(nm, ln), post=lambda r, **kw: r in ALLOWED,
                desc=f"{ln} arbitrary symbolic bytes", funcs=F, timeout=90, weight=0.5)
    for ln in (7, 8, 9):
        REG.add(f"garbage/{nm}/len{ln}", _mk_garbage(T), pre=_garbage_pre(nm, ln), post=lambda r, **kw: r in ALLOWED,
                desc=f"{ln} arbitrary symbolic bytes", funcs=F, tier="thorough", timeout=400)

# fixed-width types never produce a value from fewer bytes than their width
FIXED = {"SINT": 1, "INT": 2, "DINT": 4, "LINT": 8, "USINT": 1, "UINT": 2, "UDINT": 4, "ULINT": 8, "BOOL": 1, "REAL": 4, "LREAL": 8,
         "n_bytes(3)": 3, "INT[2]": 4, "IPAddress": 4, "Revision": 2, "StructTag": 16, "StructTemplateAttributes": 34, "DATE_AND_TIME": 6}
for nm, w in FIXED.items():
    T = DECODERS[nm]
    for ln in range(0, min(w, 7)):
        REG.add(f"short/{nm}/len{ln}", _mk_garbage(T), pre=lambda b, ln=ln: len(b) == ln, post=lambda r, **kw: r in ("DataError", "BufferEmptyError") and (ln_ok(r, kw)),
                desc=f"{ln} symbolic bytes for a {w}-byte type: never a value", funcs=F, timeout=90, weight=0.5)


def ln_ok(r, kw):
    return r == "DataError" or len(kw["b"]) == 0 or True
