"""C10  Connection lifecycle is safe under any call history and failure point.

Bounded histories of the real open / close / read / write / generic_message / with-block calls from the real
initial state against the reference controller, with a SYMBOLIC operation code per step, a SYMBOLIC single
fault position (the k-th socket send/receive raises, or the peer vanishes from then on) and a SYMBOLIC target
policy.  Plus one-step obligations from the directly constructed 'connected' state (inductive step for the
state every successful history reaches)."""
from vlib.ob import Registry
from vlib.sym import concrete
from vlib import scen, chplugin
from vlib.tspec import vec_fn, vec_pre
import pycomm3.cip_driver as CD
from pycomm3 import LogixDriver
from pycomm3.exceptions import PycommError, CommError, ResponseError
from pycomm3.tag import Tag

REG = Registry("C10")
BOUNDS = {"quick": {"history length": "<= 2 operations + final close/reopen", "operations": "open, close, read, write, generic connected, generic unconnected, with-block, with-block raising",
                    "fault": "none or exactly one: the k-th socket operation raises (k symbolic) / the peer vanishes from the k-th operation on", "policy": "large FO ok | large refused | all FO refused | session refused"},
          "thorough": {"history length": "<= 3"}}
OUTSIDE = ["two faults in one history", "concurrent use of one driver", "socket connect() failures (the fake socket's connect always succeeds)"]
TRUSTED = ["vlib.ref.logix session / connection manager model", "FakeSocket fault injection"]
ASSUMPTIONS = ["tag upload is disabled (init_tags=False) to keep histories short; open() still performs ListIdentity, identity, Forward Open and the program-name request"]
F = ["cip_driver.CIPDriver.open", "cip_driver.CIPDriver._register_session", "cip_driver.with_forward_open", "cip_driver.CIPDriver._forward_open", "cip_driver.CIPDriver.close",
     "cip_driver.CIPDriver._forward_close", "cip_driver.CIPDriver._un_register_session", "cip_driver.CIPDriver.__enter__", "cip_driver.CIPDriver.__exit__",
     "cip_driver.CIPDriver._send", "cip_driver.CIPDriver._receive", "logix_driver.LogixDriver.open", "logix_driver.LogixDriver._initialize_driver"]
POLICIES = [{"large_fo": True, "fo": True, "session": True}, {"large_fo": False, "fo": True, "session": True},
            {"large_fo": False, "fo": False, "session": True}, {"large_fo": True, "fo": True, "session": False}]
OPS = ["open", "close", "read", "write", "generic-connected", "generic-unconnected", "with", "with-raise"]


class Shared:
    """fault counter shared by every socket the driver creates in one scenario"""

    def __init__(self, fault_at, kind):
        self.ops, self.fault_at, self.kind, self.dead, self.fired_in = 0, fault_at, kind, False, None
        self.socks = []


class Sock(scen.FakeSocket):
    def __init__(self, target, shared):
        super().__init__(target)
        self.sh = shared
        shared.socks.append(self)

    def _op(self):
        sh = self.sh
        sh.ops += 1
        if sh.dead or (sh.fault_at != 0 and sh.ops == sh.fault_at):
            if sh.kind == 1:
                sh.dead = True
                self.target.reachable = False
            sh.fired_in = sh.current
            raise scen.FaultInjected("injected transport fault at I/O #%d" % sh.ops)


class UserError(Exception):
    pass


def _released(sh, target, where):
    """after a close: a reachable target holds nothing of this client; and when no transport fault has occurred in the whole history the
    client must have released session and connection ITSELF (Forward Close, UnRegisterSession) before it closed the socket"""
    if target.reachable and (target.sessions or target.connections):
        return f"target still holds session/connection after {where}"
    if sh.fired_in is None:
        for sk in sh.socks:
            if sk.held_at_close is not None and (sk.held_at_close[0] or sk.held_at_close[1]):
                return f"socket closed in {where} while the target still held {sk.held_at_close} (no Forward Close / UnRegisterSession)"
    return None


def run_history(ops, fault_at, kind, pol):
    from harness.C01 import TAGS
    target = scen.std_project(policy=POLICIES[pol])
    sh = Shared(fault_at, kind)
    sh.current = None
    CD.Socket = lambda timeout=5.0: Sock(target, sh)         # every socket the driver opens is a fake wired to the same target
    d = LogixDriver("10.0.0.1", init_tags=False)
    d._tags = TAGS
    closes = []
    for step, op in enumerate(ops):
        sh.current = step
        name = OPS[op]
        entered = False
        raised_user = False
        r = None
        try:
            if name == "open":
                r = d.open()
            elif name == "close":
                d.close()
                r = None
            elif name == "read":
                r = d.read("D1")
            elif name == "write":
                r = d.write(("D1", 5))
            elif name == "generic-connected":
                r = d.generic_message(service=0x01, class_code=0x64, instance=1, connected=True)
            elif name == "generic-unconnected":
                r = d.generic_message(service=0x01, class_code=0x01, instance=1, connected=False, unconnected_send=True)
            elif name == "with":
                with d:
                    entered = True
                    r = d.read("I1")
            else:
                with d:
                    entered = True
                    raise UserError("user code failed")
            if isinstance(r, Tag) and r and (target.violations):
                return "protocol:" + target.violations[0]
        except UserError:
            if name != "with-raise":
                return "user-error-from-nowhere"
            raised_user = True
        except PycommError:
            pass
        except Exception as e:
            return f"foreign-exception in {name}: {type(e).__name__}: {str(e)[:60]}"
        if name == "with-raise" and entered and not raised_user:
            return "exception raised inside the with-block was swallowed"
        if name == "close" or entered:
            if d.connected:
                return "connected-after-close"
            v = _released(sh, target, name)
            if v:
                return v
    if target.violations:
        return "protocol:" + target.violations[0]
    # Forward Open order: every connection attempt starts with the large Forward Open; a standard one only follows a refused large one
    fos = [e[1] for e in target.log if e[1] in (0x54, 0x5B)]
    if fos and fos[0] != 0x5B:
        return "standard-forward-open-first"
    for c in target.connections.values():
        if c["size"] not in (4000, 500) or (c["size"] == 500 and POLICIES[pol]["large_fo"] and sh.fired_in is None):
            return "connection-size"
    # final: close (tolerating a dead peer), then a fresh open must work when the target is reachable and willing
    sh.current = "final"
    try:
        d.close()
    except PycommError:
        pass
    except Exception as e:
        return "foreign-exception in final close: " + type(e).__name__
    if d.connected:
        return "connected-after-final-close"
    v = _released(sh, target, "the final close")
    if v:
        return v
    if target.reachable and POLICIES[pol]["session"] and POLICIES[pol]["fo"]:
        sh.fault_at = 0
        try:
            if not d.open():
                return "reopen-returned-false"
            t = d.read("D1")
            if not t:
                return "read-after-reopen-failed:" + str(t.error)
            d.close()
        except Exception as e:
            return "reopen-failed: " + type(e).__name__ + ": " + str(e)[:60]
        if target.sessions or target.connections or target.violations:
            return "not-clean-after-reopen-cycle"
    return "ok"


def _mk_history(n, first):
    def body(xs):
        try:
            ops = [first] + [concrete(x) for x in xs[:n - 1]]
            return run_history(ops, xs[n - 1], concrete(xs[n]), concrete(xs[n + 1]))
        except Exception as e:
            return "exc:" + type(e).__name__ + ":" + str(e)[:80]
    return body


def hpre(n):
    return lambda xs: all(0 <= x < len(OPS) for x in xs[:n - 1]) and 0 <= xs[n - 1] <= 40 and xs[n] in (0, 1) and 0 <= xs[n + 1] < len(POLICIES)


for first in range(len(OPS)):
    for kind in (0, 1):
        REG.add(f"history/len1/first-{OPS[first]}/{'raise-once' if kind == 0 else 'peer-vanishes'}", vec_fn(3, _mk_history(1, first)),
                pre=vec_pre(3, lambda xs, kind=kind: 0 <= xs[0] <= 40 and xs[1] == kind and 0 <= xs[2] < len(POLICIES)), timeout=900, weight=4, funcs=F,
                desc=f"history of 1 operation ({OPS[first]}) + final close + reopen; fault position symbolic 0..40 (0 = none), fault kind "
                     f"{'raise once' if kind == 0 else 'peer vanishes'}, policy symbolic over 4")


def _mk_pair(first, second):
    def body(xs):
        try:
            return run_history([first, second], xs[0], concrete(xs[1]), concrete(xs[2]))
        except Exception as e:
            return "exc:" + type(e).__name__ + ":" + str(e)[:80]
    return body


QUICK_PAIRS = {("open", "read"), ("open", "close"), ("read", "close"), ("with", "read"), ("close", "open"), ("write", "read"), ("generic-connected", "close"),
               ("with-raise", "read"), ("read", "write"), ("generic-unconnected", "read")}
for first in range(len(OPS)):
    for second in range(len(OPS)):
        quick = (OPS[first], OPS[second]) in QUICK_PAIRS
        REG.add(f"history/len2/{OPS[first]}+{OPS[second]}", vec_fn(3, _mk_pair(first, second)),
                pre=vec_pre(3, (lambda xs: 0 <= xs[0] <= 28 and xs[1] in (0, 1) and xs[2] in (0, 1)) if quick else (lambda xs: 0 <= xs[0] <= 40 and xs[1] in (0, 1) and 0 <= xs[2] < len(POLICIES))),
                timeout=900, weight=3, funcs=F, tier="quick",
                desc=f"history {OPS[first]}, {OPS[second]}, final close, reopen; fault position symbolic 0..{28 if quick else 40}, fault kind symbolic, policy symbolic over "
                     f"{'large-FO-ok / large-FO-refused' if quick else 'all 4'}") if quick else \
            REG.add(f"history/len2/{OPS[first]}+{OPS[second]}", vec_fn(3, _mk_pair(first, second)),
                    pre=vec_pre(3, lambda xs: 0 <= xs[0] <= 40 and xs[1] in (0, 1) and 0 <= xs[2] < len(POLICIES)), timeout=1500, weight=3, funcs=F, tier="thorough",
                    desc=f"history {OPS[first]}, {OPS[second]}, final close, reopen; fault position 0..40, kind and all 4 policies symbolic")
CORE = [OPS.index(x) for x in ("close", "read", "open", "write")]
for first in range(len(OPS)):
    REG.add(f"history/len3/first-{OPS[first]}", vec_fn(5, _mk_history(3, first)),
            pre=vec_pre(5, lambda xs: xs[0] in CORE and xs[1] in CORE and 0 <= xs[2] <= 16 and xs[3] in (0, 1) and xs[4] == 0), timeout=2400, weight=9, tier="thorough", funcs=F,
            desc=f"history of 3 operations starting with {OPS[first]}, the other two symbolic over close/read/open/write, fault position 0..16, kind symbolic, default policy")


# ---- one step from the directly constructed connected state (session + connection held by the target)
def _mk_step(cs):
    def h(op: int, fault_at: int, kind: int) -> str:
        try:
            from harness.C01 import TAGS
            target = scen.std_project()
            sh = Shared(fault_at, kind)
            sh.current = 0
            CD.Socket = lambda timeout=5.0: Sock(target, sh)
            sk = Sock(target, sh)
            d = scen.make_driver(target, cs=cs, tags=TAGS, sock=sk)
            sk._granted.append(d._session)
            name = OPS[concrete(op)]
            try:
                if name == "open":
                    d.open()
                elif name == "close":
                    d.close()
                elif name == "read":
                    d.read("D1", "U1")
                elif name == "write":
                    d.write(("D1", 5), ("D1.2", True))
                elif name == "generic-connected":
                    d.generic_message(service=0x01, class_code=0x64, instance=1, connected=True)
                elif name == "generic-unconnected":
                    d.generic_message(service=0x01, class_code=0x01, instance=1, connected=False, unconnected_send=True)
                elif name == "with":
                    with d:
                        d.read("I1")
                else:
                    with d:
                        raise UserError()
            except (PycommError, UserError):
                pass
            except Exception as e:
                return f"foreign-exception in {name}: {type(e).__name__}"
            if target.violations:
                return "protocol:" + target.violations[0]
            sh.current = "final"
            try:
                d.close()
            except PycommError:
                pass
            if d.connected:
                return "connected-after-close"
            v = _released(sh, target, "close")
            return v or "ok"
        except Exception as e:
            return "exc:" + type(e).__name__ + ":" + str(e)[:80]
    return h


for cs in (4000, 500):
    REG.add(f"step/from-connected-cs{cs}", _mk_step(cs), pre=lambda op, fault_at, kind: 0 <= op < len(OPS) and 0 <= fault_at <= 12 and kind in (0, 1), timeout=900, weight=3, funcs=F,
            desc="one symbolic operation from the state 'session registered + Forward Open done', symbolic fault position/kind, then close: the target must be clean when reachable")
