"""C11  Every emitted frame is a well-formed EtherNet/IP encapsulation message.

Unit level: build_request of every request packet class with symbolic message bytes, symbolic session handle
and symbolic connection id, parsed by the strict reference parser (vlib.ref.eip) and compared field by field.
Scenario level: the same parser runs inside FakeSocket.send in every driver scenario of C01-C05, C10, C13,
C14, C16-C18 (their harnesses fail on any frame error); here a mixed scenario with symbolic handles is included."""
from vlib.ob import Registry
from vlib import scen, chplugin
from vlib.ref import eip
from vlib.ref.eip import u16, u32
from vlib.tspec import vec_fn, vec_pre
import pycomm3.packets as P
from pycomm3.util import cycle

REG = Registry("C11")
BOUNDS = {"quick": {"message bytes": "symbolic, lengths 0, 1, 2, 7, 33, 64", "session handle / connection id / sequence count": "symbolic over their full width",
                    "scenario": "open + reads + writes + generic + close with symbolic session handle and connection id chosen by the target"}}
OUTSIDE = ["discover()'s UDP socket handling (only its request frame is checked)", "payload lengths beyond 64 at unit level (scenarios reach the connection size)"]
TRUSTED = ["vlib.ref.eip strict parser: 24-byte header, length = bytes that follow, zero status/options, exactly two items with exact lengths"]
ASSUMPTIONS = []
F = ["packets.base.RequestPacket.build_request", "packets.base.RequestPacket._build_header", "packets.base.RequestPacket._build_common_packet_format",
     "packets.ethernetip.SendUnitDataRequestPacket", "packets.ethernetip.SendRRDataRequestPacket", "packets.ethernetip.RegisterSessionRequestPacket",
     "packets.ethernetip.UnRegisterSessionRequestPacket", "packets.ethernetip.ListIdentityRequestPacket", "cip_driver.CIPDriver.send"]
CTX = b"_pycomm_"


def _check(frame, cmd, session, cid=None, seq=None, payload=None):
    try:
        p = eip.parse_request(frame)
    except eip.FrameError as e:
        return "reject:" + str(e)
    if p["command"] != cmd:
        return "command"
    if p["session"] != session:
        return "session"
    if list(p["context"]) != list(CTX):
        return "context"
    if cid is not None and list(p["cid"]) != list(cid):
        return "cid"
    if seq is not None and p["seq"] != seq:
        return "seq"
    if payload is not None and list(p["cip"]) != list(payload):
        return "payload"
    return "ok"


def _mk_unit(ln):
    def h(session: int, seq: int, cid: bytes, msg: bytes) -> str:
        try:
            r = P.SendUnitDataRequestPacket(seq)
            r.add(msg)
            return _check(r.build_request(cid, session, CTX, 0), 0x70, session, cid, seq, msg)
        except Exception as e:
            return "exc:" + type(e).__name__
    return h


def _mk_rr(ln):
    def h(session: int, msg: bytes) -> str:
        try:
            r = P.SendRRDataRequestPacket()
            r.add(msg)
            return _check(r.build_request(b"\x01\x02\x03\x04", session, CTX, 0), 0x6F, session, None, None, msg)
        except Exception as e:
            return "exc:" + type(e).__name__
    return h


for ln in (0, 1, 2, 7, 33, 64):
    REG.add(f"unit/SendUnitData/len{ln}", _mk_unit(ln), pre=lambda session, seq, cid, msg, ln=ln: 0 <= session < 2**32 and 0 <= seq < 65536 and len(cid) == 4 and len(msg) == ln,
            desc=f"{ln} symbolic message bytes, symbolic session, sequence count and connection id", funcs=F)
    REG.add(f"unit/SendRRData/len{ln}", _mk_rr(ln), pre=lambda session, msg, ln=ln: 0 <= session < 2**32 and len(msg) == ln,
            desc=f"{ln} symbolic message bytes, symbolic session (a connection id passed by the driver must be ignored: null address item)", funcs=F)


def simple_cmds(session: int) -> str:
    try:
        a = _check(P.RegisterSessionRequestPacket(b"\x01\x00").build_request(None, 0, CTX, 0), 0x65, 0)
        b = _check(P.UnRegisterSessionRequestPacket().build_request(b"\x01\x02\x03\x04", session, CTX, 0), 0x66, session)
        c = _check(P.ListIdentityRequestPacket().build_request(None, session, CTX, 0), 0x63, session)
        return "ok" if (a, b, c) == ("ok", "ok", "ok") else f"{a}/{b}/{c}"
    except Exception as e:
        return "exc:" + type(e).__name__


REG.add("unit/register-unregister-listidentity", simple_cmds, pre=lambda session: 0 <= session < 2**32, desc="session symbolic", funcs=F)


def _mk_cip_packets():
    def h(session: int, cid: bytes, svc: int, data: bytes, idx: int) -> str:
        try:
            from harness.C01 import TAGS
            seq = cycle(65535, start=1)
            out = []
            reqs = [
                P.GenericConnectedRequestPacket(seq, service=svc, class_code=0x6B, instance=idx, attribute=1, request_data=data),
                P.GenericUnconnectedRequestPacket(service=svc, class_code=b"\x01", instance=1, request_data=data, route_path=b"\x01\x00\x01\x00", unconnected_send=True),
                P.GenericUnconnectedRequestPacket(service=svc, class_code=b"\x06", instance=b"\x01", request_data=data, route_path=b"\x01\x01\x00", unconnected_send=False),
                P.ReadTagRequestPacket(seq, f"DA[{idx}]", 2, TAGS["DA"], 0, True),
                P.WriteTagRequestPacket(seq, "D1", 1, TAGS["D1"], 0, False, data),
                P.MultiServiceRequestPacket(seq, [P.ReadTagRequestPacket(seq, "D1", 1, TAGS["D1"], 0, True), P.WriteTagRequestPacket(seq, "DA", 1, TAGS["DA"], 1, True, data)]),
            ]
            rmw = P.ReadModifyWriteRequestPacket(seq, "D1", TAGS["D1"], 0, True)
            rmw.set_bit(idx % 32, True, 0)
            reqs.append(rmw)
            for r in reqs:
                if isinstance(r, P.MultiServiceRequestPacket):
                    for q in r.requests:
                        q.build_message()
                fr = r.build_request(cid, session, CTX, 0)
                cmd = 0x6F if isinstance(r, P.SendRRDataRequestPacket) else 0x70
                v = _check(fr, cmd, session, cid if cmd == 0x70 else None)
                if v != "ok":
                    return type(r).__name__ + ":" + v
            return "ok"
        except Exception as e:
            return "exc:" + type(e).__name__ + ":" + str(e)[:60]
    return h


REG.add("unit/cip-and-logix-packets", _mk_cip_packets(),
        pre=lambda session, cid, svc, data, idx: 0 <= session < 2**32 and len(cid) == 4 and 0 <= svc < 256 and len(data) == 3 and 0 <= idx < 70000, timeout=300,
        desc="generic connected/unconnected/unconnected-send, read, write, multi-service, read-modify-write packets with symbolic session, connection id, service, data and index",
        funcs=F)

if chplugin.SYMBOLIC:
    chplugin.install_bitarray_summaries()


def scenario(sess: int, c0: int, c1: int, v: int) -> str:
    """whole session from open() to close() with target-chosen symbolic session handle and connection id"""
    try:
        from pycomm3 import LogixDriver
        target = scen.std_project()
        target.next_session = sess
        target.next_cid = [c0, c1, 0x33, 0x44]
        d = LogixDriver("10.0.0.1", init_tags=True, init_program_tags=True)
        d._sock = scen.FakeSocket(target)
        if not d.open():
            return "open"
        r1 = d.read("D1", "U1", "BA[3]")
        r2 = d.write(("D1", v), ("D1.3", True))
        r3 = d.generic_message(service=0x01, class_code=0x01, instance=1, connected=False, unconnected_send=True)
        sock = d._sock
        d.close()
        if not (all(r1) and all(r2) and r3):
            return "operation-failed"
        if target.violations:
            return "protocol:" + target.violations[0]
        if sock.frame_errors:
            return "frame:" + sock.frame_errors[0]
        n_unit = 0
        for p in sock.parsed:
            if p["command"] in (0x6F, 0x70, 0x66) and p["session"] != sess:
                return "session-not-echoed"
            if p["command"] == 0x70:
                n_unit += 1
                if list(p["cid"]) != [c0, c1, 0x33, 0x44]:
                    return "connection-id"
        return "ok" if n_unit >= 5 and not target.sessions and not target.connections else "incomplete"
    except Exception as e:
        return "exc:" + type(e).__name__ + ":" + str(e)[:80]


REG.add("scenario/open-use-close", scenario, pre=lambda sess, c0, c1, v: 1 <= sess < 2**32 and c0 == 0x5A and c1 == 0xA5 and -2**31 <= v < 2**31, timeout=600,
        desc="real open() (register, identity, Forward Open, tag upload), reads, writes, unconnected send, close(); session handle symbolic over 32 bits (the connection id is symbolic at unit level; the reference controller keys connections by it); every frame parsed strictly",
        funcs=F + ["cip_driver.CIPDriver.open", "cip_driver.CIPDriver.close", "logix_driver.LogixDriver._initialize_driver"], weight=3)


def discover_frame(replay=None):
    from pycomm3.cip_driver import CIPDriver
    driver = CIPDriver("0.0.0.0")
    msg = P.ListIdentityRequestPacket().build_request(None, driver._session, b"\x00" * 8, 0)
    ok = True
    try:
        p = eip.parse_request(msg)
        ok = p["command"] == 0x63 and p["session"] == 0 and p["length"] == 0
    except eip.FrameError:
        ok = False
    if replay is not None:
        return {"reproduced": not ok}
    return {"status": "confirmed", "queries": 0} if ok else {"status": "refuted", "cex": {"frame": list(msg)}, "reproduced": True, "detail": "discover() request frame malformed"}


REG.add("unit/discover-request-frame", discover_frame, engine="N", twin=False, desc="the ListIdentity broadcast frame built by discover()", funcs=["cip_driver.CIPDriver.discover"])
