"""C04  Connected requests fit the connection; large data is tiled by fragments.

Builder level (Engine A): the real request builders run with SYMBOLIC sizes (value length as a
symbolic-length bytes object, structure size / element count / connection size as symbolic ints);
every packet they return is framed by the real build_request and measured by the strict reference
parser; for reads the reply the reference controller would produce is computed from the sizes.
Driver level: fragmented transfers with target-chosen fragment capacities (see also C01/C02)."""
from vlib.ob import Registry
from vlib import scen, chplugin
from vlib.ref import eip
from vlib.tspec import vec_fn, vec_pre
from pycomm3.packets import (MultiServiceRequestPacket, ReadTagFragmentedRequestPacket, WriteTagFragmentedRequestPacket, ReadTagRequestPacket,
                             WriteTagRequestPacket)
from pycomm3.custom_types import StructTag
from pycomm3.cip.data_types import DINT, Array

REG = Registry("C04")
BOUNDS = {"quick": {"connection size": "symbolic in [64, 4000] (plus twins pinned to 500 and 4000)", "value / structure size": "symbolic 1..9000 bytes",
                    "requests per multi-service packet": "1..3", "tag name length": "1, 2, 7, 20, 40 characters", "fragments": "<= 4 per transfer (driver level)"},
          "thorough": {"requests per multi-service packet": "1..4"}}
OUTSIDE = ["more fragments per transfer than the driver-level scenarios unroll (the loops are uniform; stated, not proved)",
           "'connection size' is read leniently: a packet is flagged only if its CIP message WITHOUT the 2-byte sequence count exceeds the size"]
TRUSTED = ["vlib.ref.eip strict frame parser (measures the connected data item)", "reply-size model: 4 (reply header) + 2 + 2n (count, offsets) + sum(4 + 2|4 type + data)"]
ASSUMPTIONS = []
F = ["logix_driver._read_build_multi_requests", "logix_driver._read_build_single_request", "logix_driver._write_build_multi_requests",
     "logix_driver._write_build_single_request", "logix_driver._tag_return_size", "logix_driver._send_write_fragmented", "logix_driver._send_read_fragmented",
     "packets.logix.MultiServiceRequestPacket.build_message", "packets.base.RequestPacket.build_request", "cip_driver.with_forward_open", "cip_driver._forward_open"]
NAMES = {1: "A", 2: "Ab", 7: "Tagname", 20: "T" * 20, 40: "Program_tag_with_a_very_long_name_1234567"[:40]}


def struct_info(name, size, iid=55):
    tc = StructTag(bit_members={}, private_members=set(), struct_size=size)
    dtp = {"name": "U", "internal_tags": {}, "attributes": [], "template": {"structure_size": size, "structure_handle": 0x1234, "member_count": 0, "object_definition_size": 10}, "type_class": tc}
    return {"tag_name": name, "dim": 0, "alias": False, "instance_id": iid, "symbol_address": 0, "symbol_object_address": 0, "software_control": 0,
            "external_access": "Read/Write", "dimensions": [0, 0, 0], "data_type": dtp, "data_type_name": "U", "type_class": tc, "tag_type": "struct"}


def atomic_array_info(name, n, iid=56):
    return {"tag_name": name, "dim": 1, "alias": False, "instance_id": iid, "symbol_address": 0, "symbol_object_address": 0, "software_control": 0,
            "external_access": "Read/Write", "dimensions": [n, 0, 0], "data_type": "DINT", "data_type_name": "DINT", "type_class": Array(n, DINT), "tag_type": "atomic"}


def driver(cs, tags, use_ids):
    t = scen.std_project()
    return scen.make_driver(t, cs=cs, tags=tags, use_instance_ids=use_ids)


def measure(d, req):
    """CIP message length (without the sequence count) of a request as framed by the real build_request"""
    frame = req.build_request(d._target_cid, d._session, d._cfg["context"], d._cfg["option"])
    # SendUnitData frame = 24 header + 16 (interface, timeout, item count, address item with the 4-byte connection id) + 4 (data item type, length)
    # + 2 sequence count + CIP message.  Only len() touches the frame so that a symbolic-length value stays symbolic (frame validity itself: C11).
    return len(frame) - 46


# ------------------------------------------------------------------ writes
def _mk_write(nreq, name_len, use_ids, pin_cs):
    def h(cs: int, v1: bytes, v2: bytes, v3: bytes) -> str:
        try:
            vals = [v1, v2, v3][:nreq]
            tags = {f"{NAMES[name_len]}{i}": struct_info(f"{NAMES[name_len]}{i}", 8, iid=60 + i) for i in range(nreq)}
            d = driver(cs, tags, use_ids)
            parsed = d._parse_requested_tags(list(tags), "w")
            for i in range(nreq):
                parsed[i]["value"] = vals[i]
            reqs = d._write_build_requests(parsed)
            seen = 0
            for r in reqs:
                if isinstance(r, WriteTagFragmentedRequestPacket):
                    seen += 1
                    continue
                n = measure(d, r)
                if n > cs:
                    return "request of %d bytes at connection size %d" % (n, cs)
                seen += len(r.requests) if isinstance(r, MultiServiceRequestPacket) else 1
            return "ok" if seen == nreq else "lost-request"
        except eip.FrameError as e:
            return "frame:" + str(e)
        except Exception as e:
            return "exc:" + type(e).__name__ + ":" + str(e)[:60]
    return h


def wpre(nreq, pin):
    def pre(cs, v1, v2, v3):
        ok = (cs == pin) if pin else (64 <= cs <= 4000)
        for k, v in enumerate((v1, v2, v3)):
            ok = ok and (1 <= len(v) <= 9000 if k < nreq else len(v) == 0)
        return ok
    return pre


for nreq in (1, 2, 3):
    for nl in (1, 7, 40):
        for use_ids in (True, False):
            REG.add(f"write/n{nreq}/name{nl}/{'ids' if use_ids else 'names'}", _mk_write(nreq, nl, use_ids, None), pre=wpre(nreq, None), timeout=240,
                    desc=f"{nreq} write(s): value lengths symbolic 1..9000, connection size symbolic 64..4000, tag name {nl} chars", funcs=F,
                    tier="quick" if (nreq < 3 or nl == 7) else "thorough")
for pin in (500, 4000):
    REG.add(f"write/n2/name7/ids/cs{pin}", _mk_write(2, 7, True, pin), pre=wpre(2, pin), timeout=240, desc=f"twin pinned to connection size {pin}", funcs=F)


# ------------------------------------------------------------------ reads
def _mk_read(nreq, name_len, use_ids, pin_cs, struct):
    def body(xs):
        try:
            cs = xs[0]
            sizes = xs[1:1 + nreq]
            if struct:
                tags = {f"{NAMES[name_len]}{i}": struct_info(f"{NAMES[name_len]}{i}", sizes[i], iid=60 + i) for i in range(nreq)}
                reqstr = list(tags)
                data = [sizes[i] for i in range(nreq)]
                hdr = 4
            else:
                tags = {f"{NAMES[name_len]}{i}": atomic_array_info(f"{NAMES[name_len]}{i}", 3000, iid=60 + i) for i in range(nreq)}
                reqstr = [f"{NAMES[name_len]}{i}{{{sizes[i]}}}" for i in range(nreq)]
                data = [4 * sizes[i] for i in range(nreq)]
                hdr = 2
            d = driver(cs, tags, use_ids)
            parsed = d._parse_requested_tags(reqstr, "r")
            reqs = d._read_build_requests(parsed)
            seen = 0
            for r in reqs:
                if isinstance(r, ReadTagFragmentedRequestPacket):
                    seen += 1
                    continue
                n = measure(d, r)
                if n > cs:
                    return "request of %d bytes at connection size %d" % (n, cs)
                if isinstance(r, MultiServiceRequestPacket):
                    ids = [q.request_id for q in r.requests]
                    reply = 4 + 2 + 2 * len(ids) + sum(4 + hdr + data[i] for i in ids)
                    seen += len(ids)
                else:
                    reply = 4 + hdr + data[r.request_id]
                    seen += 1
                if reply > cs:
                    return "solicits a reply of %d bytes at connection size %d" % (reply, cs)
            return "ok" if seen == nreq else "lost-request"
        except eip.FrameError as e:
            return "frame:" + str(e)
        except Exception as e:
            return "exc:" + type(e).__name__ + ":" + str(e)[:60]
    return body


def rpre(nreq, pin, struct):
    def pre(xs):
        ok = (xs[0] == pin) if pin else (64 <= xs[0] <= 4000)
        for s in xs[1:]:
            ok = ok and (1 <= s <= (9000 if struct else 2250))
        return ok
    return pre


for nreq in (1, 2, 3):
    for nl in (1, 7, 40):
        for use_ids in (True, False):
            for struct in (True, False):
                if nreq == 3 and (nl != 7 or not struct):
                    tier = "thorough"
                else:
                    tier = "quick"
                REG.add(f"read/n{nreq}/name{nl}/{'ids' if use_ids else 'names'}/{'struct' if struct else 'dint-array'}",
                        vec_fn(1 + nreq, _mk_read(nreq, nl, use_ids, None, struct)), pre=vec_pre(1 + nreq, rpre(nreq, None, struct)), timeout=240, tier=tier,
                        desc=f"{nreq} read(s): {'structure sizes' if struct else 'element counts'} symbolic (1..9000 bytes), connection size symbolic 64..4000, tag name {nl} chars",
                        funcs=F)
for pin in (500, 4000):
    REG.add(f"read/n2/name2/names/struct/cs{pin}", vec_fn(3, _mk_read(2, 2, False, pin, True)), pre=vec_pre(3, rpre(2, pin, True)), timeout=240,
            desc=f"twin pinned to connection size {pin}", funcs=F)


# ------------------------------------------------------------------ driver level: fragmented read with target-chosen fragment capacity
def _frag_read(cap: int, m: bytes) -> str:
    try:
        from vlib.ref.logix import Symbol
        from harness.C01 import TAGS, check_tag
        n = 40
        target = scen.std_project(frag_cap=cap)
        big = Symbol("BIG", 40, 0xC4, (n,), mem=list(m) + [(3 * i) % 256 for i in range(4 * n - len(m))])
        target.symbols.append(big)
        tags = dict(TAGS)
        tags["BIG"] = atomic_array_info("BIG", n, iid=40)
        d = scen.make_driver(target, cs=100, tags=tags)
        tg = d.read("BIG{40}")
        v = check_tag(tg, "BIG", ("list", 0xC4, 0, n, "DINT[40]"), big.mem)
        if v != "ok":
            return v
        if target.violations:
            return "protocol:" + target.violations[0]
        got = 0
        for e in target.log:
            if e[1] == 0x52:
                off = e[3][2] + 256 * e[3][3] + 65536 * e[3][4] + 16777216 * e[3][5]
                if off != got:
                    return "fragment offset %d != %d bytes received" % (off, got)
                got += min(max(cap - cap % 4, 4) if cap >= 4 else cap, 4 * n - got, 100 - 6 - (100 - 6) % 4)
        return "ok"
    except Exception as e:
        return "exc:" + type(e).__name__ + ":" + str(e)[:60]


REG.add("fragmented-read/target-capacity", _frag_read, pre=lambda cap, m: 40 <= cap <= 100 and len(m) == 8, timeout=600,
        desc="DINT[40] at connection size 100; the target returns at most cap bytes per fragment, cap symbolic 40..100 (enumerated by realisation); first 8 bytes symbolic",
        funcs=F)


# ------------------------------------------------------------------ Forward Open negotiation
def _fo(large_ok: bool, fo_ok: bool, sess: int) -> str:
    try:
        from pycomm3 import LogixDriver
        from pycomm3.exceptions import ResponseError, CommError
        target = scen.std_project(policy={"large_fo": large_ok, "fo": fo_ok})
        target.next_session = sess
        d = LogixDriver("10.0.0.1/2", init_tags=False)
        d._sock = scen.FakeSocket(target)
        d._connection_opened = True
        if d._register_session() != sess:
            return "session"
        try:
            r = d.generic_message(service=0x01, class_code=0x64, instance=1, connected=True, name="x")
        except ResponseError:
            r = None
        fos = [e for e in target.log if e[1] in (0x54, 0x5B)]
        svcs = [e[1] for e in target.log]
        if target.violations:
            return "protocol:" + target.violations[0]
        if d._sock.frame_errors:
            return "frame:" + d._sock.frame_errors[0]
        if not fo_ok:
            return "ok" if r is None and not d._target_is_connected and not target.connections else "connected-without-forward-open"
        if large_ok:
            ok = r and d.connection_size == 4000 and [c["size"] for c in target.connections.values()] == [4000]
        else:
            ok = r and d.connection_size == 500 and [c["size"] for c in target.connections.values()] == [500]
        return "ok" if ok else "negotiation"
    except Exception as e:
        return "exc:" + type(e).__name__ + ":" + str(e)[:60]


REG.add("forward-open/negotiation", _fo, pre=lambda large_ok, fo_ok, sess: 1 <= sess < 2**32, timeout=180,
        desc="target policy (large FO accepted?, any FO accepted?) symbolic, session handle symbolic: extended first, then standard with 500; size decoded by the target",
        funcs=F)
