"""C13  Replies are classified by their status words; bad replies cannot pass or crash."""
from vlib.ob import Registry
from vlib.sym import concrete
from vlib import scen, chplugin
from vlib.ref import eip
from vlib.sym import sym_and, sym_or
from vlib.tspec import vec_fn, vec_pre
import pycomm3.packets as P
from pycomm3.util import cycle
from pycomm3.cip import SERVICE_STATUS, EXTEND_CODES
from pycomm3.exceptions import PycommError
from pycomm3.tag import Tag

REG = Registry("C13")
BOUNDS = {"quick": {"general status": "symbolic 0..255", "extended status": "size 0..2 words, values symbolic", "encapsulation status": "0 or symbolic non-zero 32-bit",
                    "reply service byte": "symbolic 0..255", "multi-service": "2..3 embedded requests with a symbolic status vector",
                    "corruption": "every truncation point and one symbolic byte at every position of valid replies (driver level)"}}
OUTSIDE = ["two simultaneous corruptions", "status 6 on services outside both the required set {0x52, 0x53, 0x55} and the liberal set {.., 0x0A, 0x03, 0x4C}: either classification accepted only inside the liberal set"]
TRUSTED = ["vlib.ref.eip reply builders", "partial-transfer services from the Logix data access manual: Read/Write Tag Fragmented (0x52/0x53), Get Instance Attribute List (0x55)"]
ASSUMPTIONS = ["a reply whose service byte lacks the reply bit (< 0x80) is malformed and must be falsy"]
F = ["packets.base.ResponsePacket.is_valid", "packets.base.ResponsePacket.error", "packets.ethernetip.SendUnitDataResponsePacket._parse_reply", "packets.ethernetip.SendUnitDataResponsePacket.is_valid",
     "packets.ethernetip.SendRRDataResponsePacket._parse_reply", "packets.ethernetip.SendRRDataResponsePacket.is_valid", "packets.util.get_service_status",
     "packets.util.get_extended_status", "packets.logix.MultiServiceResponsePacket._parse_reply", "packets.logix.ReadTagFragmentedResponsePacket._parse_reply",
     "packets.ethernetip.RegisterSessionResponsePacket", "packets.ethernetip.ListIdentityResponsePacket", "logix_driver.LogixDriver._send_requests"]
MUST_PARTIAL = (0x52, 0x53, 0x55)
MAY_PARTIAL = (0x52, 0x53, 0x55, 0x0A, 0x03)
SESSION = 0x11223344

if chplugin.SYMBOLIC:
    chplugin.install_bitarray_summaries()


def requests():
    from harness.C01 import TAGS
    seq = cycle(65535, start=1)
    rd = P.ReadTagRequestPacket(seq, "D1", 1, TAGS["D1"], 0, False)
    return {
        "generic-connected": (P.GenericConnectedRequestPacket(seq, service=0x0E, class_code=1, instance=1), "unit"),
        "generic-unconnected": (P.GenericUnconnectedRequestPacket(service=0x0E, class_code=1, instance=1), "rr"),
        "read": (rd, "unit"),
        "write": (P.WriteTagRequestPacket(seq, "D1", 1, TAGS["D1"], 0, False, b"\x01\x00\x00\x00"), "unit"),
        "read-fragmented": (P.ReadTagFragmentedRequestPacket.from_request(seq, rd, 0), "unit"),
        "write-fragmented": (P.WriteTagFragmentedRequestPacket(seq, "D1", 1, TAGS["D1"], 0, False, 0, b"\x01\x00\x00\x00"), "unit"),
        "read-modify-write": (P.ReadModifyWriteRequestPacket(seq, "D1", TAGS["D1"], 0, False), "unit"),
        "send-unit-data": (P.SendUnitDataRequestPacket(seq), "unit"),
    }


def status_text_ok(err, st, ext_words):
    """the error text names the status: table text or 2-digit hex; plus the extended text when the tables know the pair"""
    if not isinstance(err, str) or len(err) == 0:
        return False
    hx = "0123456789abcdef"
    base = SERVICE_STATUS.get(st)
    if base is not None:
        if base not in err:
            return False
    elif (hx[st // 16] + hx[st % 16]) not in err:
        return False
    if len(ext_words) == 1 and st in EXTEND_CODES and ext_words[0] in EXTEND_CODES[st]:
        return EXTEND_CODES[st][ext_words[0]] in err
    return True


def _mk_status(kind):
    def h(svcb: int, st: int, nx: int, e0: int, e1: int, d0: int) -> str:
        try:
            req, tr = requests()[kind]
            ext = [e0, e1][:nx]
            data = [0xC4, 0x00, d0, 0, 0, 0]
            cip = [svcb, 0, st, nx]
            for w in ext:
                cip += eip.le(w, 2)
            cip += data
            raw = bytes(eip.reply_unit(SESSION, [1, 2, 3, 4], 7, cip)) if tr == "unit" else bytes(eip.reply_rr(SESSION, cip))
            resp = req.response_class(req, raw)
            truthy = bool(resp)
            err = resp.error
            wellformed = svcb >= 128
            svc = svcb - 128
            if not wellformed:
                return "ok" if not truthy and err else "malformed-service-accepted"
            if st == 0:
                if nx != 0:
                    return "ok"     # success replies carry no additional status; either reading of such a frame is accepted
                return "ok" if truthy and err is None else "success-rejected:" + str(err)
            if st == 6 and svc not in (0x4C, 0x4D, 0x4E):
                # the classification goes by the REPLY service: Read Tag / Write Tag / Read-Modify-Write replies never continue, for them
                # status 6 is an error like any other (falls through)
                if svc in MUST_PARTIAL and kind in ("generic-connected", "read-fragmented", "write-fragmented", "send-unit-data") and nx == 0:
                    return "ok" if truthy else "partial-transfer-rejected"
                if svc in MAY_PARTIAL:
                    return "ok"
            if truthy:
                return "error-status-accepted"
            if err is None or len(err) == 0:
                return "no-error-text"
            return "ok" if status_text_ok(err, st, ext) else "error-text:" + err[:40]
        except Exception as e:
            return "exc:" + type(e).__name__ + ":" + str(e)[:60]
    return h


REPLY_SVC = {"generic-connected": 0x8E, "generic-unconnected": 0x8E, "read": 0xCC, "write": 0xCD, "read-fragmented": 0xD2, "write-fragmented": 0xD3,
             "read-modify-write": 0xCE, "send-unit-data": 0xD5}
EXT_STATUSES = sorted(set(EXTEND_CODES) | {0x04, 0x05, 0x13, 0x2A})
# split by range preconditions (DESIGN 2.1 rule 6): one dimension over its whole range at a time
for kind in REPLY_SVC:
    rs = REPLY_SVC[kind]
    REG.add(f"status/{kind}/reply-service-byte", _mk_status(kind),
            pre=lambda svcb, st, nx, e0, e1, d0: 0 <= svcb < 256 and st in (0, 6) and nx == 0 and e0 == 0 and e1 == 0 and 0 <= d0 < 256,
            timeout=900, funcs=F, weight=2, desc=f"{kind} reply: reply-service byte symbolic 0..255 (with and without the reply bit), general status 0 or 6, a data byte symbolic")
    REG.add(f"status/{kind}/general-status", _mk_status(kind),
            pre=lambda svcb, st, nx, e0, e1, d0, rs=rs: svcb == rs and 0 <= st < 256 and nx == 0 and e0 == 0 and e1 == 0 and 0 <= d0 < 256,
            timeout=900, funcs=F, weight=2, desc=f"{kind} reply: general status symbolic 0..255, no extended status")
    for nx in (1, 2):
        REG.add(f"status/{kind}/extended{nx}", _mk_status(kind),
                pre=lambda svcb, st, nx, e0, e1, d0, rs=rs, NX=nx: svcb == rs and st in EXT_STATUSES and nx == NX and 0 <= e0 < 65536 and (0 <= e1 < 65536 if NX == 2 else e1 == 0) and d0 == 1,
                timeout=900, funcs=F, weight=3, tier="quick" if kind in ("generic-connected", "read", "generic-unconnected") else "thorough",
                desc=f"{kind} reply: general status in {[hex(x) for x in EXT_STATUSES]}, {nx} extended status word(s) symbolic over 16 bits")


def _mk_encap(kind):
    def h(est: int, st: int) -> str:
        try:
            req, tr = requests()[kind]
            cip = eip.cip_reply(0x0E, st, [1, 2])
            raw = list(eip.reply_unit(SESSION, [1, 2, 3, 4], 7, cip)) if tr == "unit" else list(eip.reply_rr(SESSION, cip))
            raw[8:12] = eip.le(est, 4)
            hdr_only = bytes(eip.reply_error(0x70 if tr == "unit" else 0x6F, SESSION, est))
            for r in (bytes(raw), hdr_only):
                resp = req.response_class(req, r)
                if resp:
                    return "encapsulation-error-accepted"
                if not resp.error:
                    return "no-error-text"
            return "ok"
        except Exception as e:
            return "exc:" + type(e).__name__ + ":" + str(e)[:60]
    return h


ENCAP_CODES = [1, 2, 3, 0x64, 0x65, 0x69, 0xFF, 0x100, 0xFFFF, 0x10000, 2**31, 2**32 - 1]


def _mk_encap_known(kind):
    inner = _mk_encap(kind)

    def h(k: int, st: int) -> str:
        return inner(ENCAP_CODES[concrete(k)], st)
    return h


for kind in ("generic-connected", "generic-unconnected", "read", "write", "read-fragmented"):
    REG.add(f"encap-status/{kind}/documented-codes", _mk_encap_known(kind), pre=lambda k, st: 0 <= k < len(ENCAP_CODES) and st in (0, 5), timeout=400, funcs=F,
            desc=f"encapsulation status a symbolic choice of {[hex(x) for x in ENCAP_CODES]}, CIP status 0 or 5, full body and header-only: always falsy with an error text")
    REG.add(f"encap-status/{kind}/any-large", _mk_encap(kind), pre=lambda est, st: 256 <= est < 2**31 and st == 0, timeout=400, funcs=F,
            desc="encapsulation status symbolic over 256..2^31-1 with CIP status 0: always falsy with an error text (values with the top bit set: documented-codes obligation)",
            tier="thorough")


def register_session(est: int, sess: int, cut: int) -> str:
    try:
        req = P.RegisterSessionRequestPacket(b"\x01\x00")
        raw = bytes(eip.reply_register(sess, status=est))
        resp = req.response_class(req, raw)
        if est == 0:
            if not (resp and resp.session == sess and resp.error is None):
                return "success-rejected"
        elif resp or not resp.error:
            return "error-accepted"
        short = req.response_class(req, raw[:cut])
        if short and cut < 12:
            return "truncated-accepted"
        none = req.response_class(req, None)
        return "ok" if not none and none.error else "no-reply-accepted"
    except Exception as e:
        return "exc:" + type(e).__name__ + ":" + str(e)[:60]


REG.add("register-session", register_session, pre=lambda est, sess, cut: 0 <= est < 2**32 and 0 <= sess < 2**32 and 0 <= cut < 28, timeout=400, funcs=F,
        desc="RegisterSession reply: status and session symbolic, every truncation point")


# ------------------------------------------------------------------ multi-service status vectors (driver level)
def _mk_multi(n):
    def body(xs):
        try:
            from harness.C01 import TAGS
            sts = [MULTI_STATUSES[x] for x in xs[:n]]      # table lookup by symbolic index: enumerated by the engine
            state = {"i": 0}

            def hook(svc, segs, data, tr):
                if svc == 0x4C:
                    i = state["i"]
                    state["i"] += 1
                    st = sts[i]
                    if st != 0:
                        return eip.cip_reply(svc, st, [])
                return None
            target = scen.std_project()
            target.generic_hook = hook
            d = scen.make_driver(target, tags=TAGS)
            names = ["D1", "I1", "S1"][:n]
            res = d.read(*names)
            if not isinstance(res, list) or len(res) != n:
                return "shape"
            for i in range(n):
                tg = res[i]
                if tg.tag != names[i]:
                    return "order"
                if sts[i] == 0:
                    if not tg or tg.value != 0:
                        return "good-service-lost"
                else:
                    if tg or tg.value is not None:
                        return "error-service-accepted"
                    if not status_text_ok(tg.error, sts[i], []):
                        return "error-text"
            return "ok"
        except Exception as e:
            return "exc:" + type(e).__name__ + ":" + str(e)[:60]
    return body


MULTI_STATUSES = [0, 0x04, 0x05, 0x13, 0xFF, 0x2A]
for n in (2, 3):
    REG.add(f"multi-service/status-vector{n}", vec_fn(n, _mk_multi(n)), pre=vec_pre(n, lambda xs: all(0 <= x < len(MULTI_STATUSES) for x in xs)), timeout=900, funcs=F, weight=3,
            tier="quick" if n == 2 else "thorough",
            desc=f"{n} reads in one multi-service packet; the controller answers service i with status s_i, each a symbolic choice of {[hex(x) for x in MULTI_STATUSES]} (0 = success): "
                 "per-service isolation and error texts")


def multi_one_status(st: int) -> str:
    return _mk_multi_sym()(st)


def _mk_multi_sym():
    def h(st):
        try:
            from harness.C01 import TAGS
            state = {"i": 0}

            def hook(svc, segs, data, tr):
                if svc == 0x4C:
                    state["i"] += 1
                    if state["i"] == 2:
                        return eip.cip_reply(svc, st, [])
                return None
            target = scen.std_project()
            target.generic_hook = hook
            d = scen.make_driver(target, tags=TAGS)
            res = d.read("D1", "I1", "S1")
            if not (res[0] and res[2]) or res[1] or res[1].value is not None:
                return "isolation"
            return "ok" if status_text_ok(res[1].error, st, []) else "error-text"
        except Exception as e:
            return "exc:" + type(e).__name__ + ":" + str(e)[:60]
    return h


REG.add("multi-service/middle-service-any-status", multi_one_status, pre=lambda st: 1 <= st < 256 and st != 6, timeout=900, funcs=F, weight=2,
        desc="3 reads in one multi-service packet, the middle one answered with a symbolic status 1..255: the others unaffected, error text names the status")


# ------------------------------------------------------------------ corruption of valid replies at driver level
class CorruptingSocket(scen.FakeSocket):
    def __init__(self, target, mode, pos, val, which):
        super().__init__(target)
        self.mode, self.pos, self.val, self.which = mode, pos, val, which
        self.n = 0

    def receive(self, timeout=0):
        r = super().receive(timeout)
        self.n += 1
        if self.n != self.which:
            return r
        if self.mode == "trunc":
            return r[:self.pos]
        return r[:self.pos] + bytes([self.val]) + r[self.pos + 1:]


def _mk_corrupt(op, mode):
    def h(pos: int, val: int) -> str:
        try:
            from harness.C01 import TAGS
            target = scen.std_project(mem={"D1": [1, 2, 3, 4]})
            d = scen.make_driver(target, tags=TAGS)
            d._sock = CorruptingSocket(target, mode, pos, val, 1)
            try:
                if op == "read":
                    res = [d.read("D1")]
                    good = lambda t: t.value == 0x04030201
                elif op == "multi-read":
                    res = d.read("D1", "I1")
                    good = None
                elif op == "write":
                    res = [d.write(("D1", 5))]
                    good = None
                else:
                    res = [d.generic_message(service=0x01, class_code=0x64, instance=1)]
                    good = None
            except PycommError:
                return "ok"
            for t in res:
                if not isinstance(t, Tag):
                    return "not-a-Tag"
                if t and mode == "trunc" and pos < LEN_NEEDED[op]:
                    return "too-short-reply-accepted"
                if not t and not t.error:
                    return "no-error-text"
            return "ok"
        except Exception as e:
            return "foreign-exception:" + type(e).__name__ + ":" + str(e)[:60]
    return h


# bytes a connected reply needs to contain its general status: 24 header + 16 + 4 + 2 seq + service, reserved, status
LEN_NEEDED = {"read": 49, "multi-read": 49, "write": 49, "generic": 49}   # the general status is byte 48 of a connected reply
for op in ("read", "multi-read", "write", "generic"):
    REG.add(f"corrupt/{op}/truncate", _mk_corrupt(op, "trunc"), pre=lambda pos, val: 0 <= pos < 70 and val == 0, timeout=900, funcs=F, weight=2,
            desc=f"{op}: the reply truncated at every position 0..69: only library exceptions or falsy Tags with an error; a reply too short for its status words is never truthy")
    for lo, hi in ((44, 48), (48, 52), (52, 58)):
        REG.add(f"corrupt/{op}/one-byte/cip-part/{lo}-{hi - 1}", _mk_corrupt(op, "byte"), pre=lambda pos, val, lo=lo, hi=hi: lo <= pos < hi and 0 <= val < 256, timeout=1500, funcs=F, weight=3,
                desc=f"{op}: one byte of the reply at positions {lo}..{hi - 1} (sequence count / CIP reply header / first data bytes) replaced by a symbolic value: only library exceptions or Tags",
                tier="quick" if op == "read" else "thorough")
    if op in ("read", "write"):
        for lo in (0, 12, 24, 34):
            REG.add(f"corrupt/{op}/one-byte/encapsulation-part/{lo}", _mk_corrupt(op, "byte"), pre=lambda pos, val, lo=lo: lo <= pos < min(lo + 12, 44) and 0 <= val < 256, timeout=1500,
                    funcs=F, weight=3, tier="thorough",
                    desc=f"{op}: one byte of the encapsulation header / item headers (positions {lo}..{min(lo + 12, 44) - 1}) replaced by a symbolic value")


# ------------------------------------------------------------------ fragmented transfers: an error on ANY fragment fails the whole request
def _mk_fragment_error(kind):
    def h(k: int, st: int) -> str:
        try:
            from harness.C01 import TAGS
            from vlib.ref.logix import Symbol
            from pycomm3.cip.data_types import DINT, Array
            state = {"i": 0}
            svc_code = 0x53 if kind == "write" else 0x52

            def hook(svc, segs, data, tr):
                if svc == svc_code:
                    state["i"] += 1
                    if state["i"] == k:
                        return eip.cip_reply(svc, st, [])
                return None
            target = scen.std_project()
            target.symbols.append(Symbol("BIG", 40, 0xC4, (60,)))
            target.generic_hook = hook
            tags = dict(TAGS)
            tags["BIG"] = dict(TAGS["DA"], tag_name="BIG", instance_id=40, dimensions=[60, 0, 0], type_class=Array(60, DINT))
            d = scen.make_driver(target, cs=100, tags=tags)
            if kind == "write":
                tg = d.write(("BIG{60}", list(range(60))))
            else:
                tg = d.read("BIG{60}")
            n = len([e for e in target.log if e[1] == svc_code])
            if n < min(k, 3):
                return "too-few-fragments"
            if k > n:
                return "ok" if tg else "good-transfer-failed"
            if tg or tg.error is None or len(tg.error) == 0:
                return "transfer with a failed fragment reported as success"
            return "ok"
        except Exception as e:
            return "exc:" + type(e).__name__ + ":" + str(e)[:60]
    return h


for kind in ("write", "read"):
    REG.add(f"fragmented-{kind}/error-on-fragment-k", _mk_fragment_error(kind), pre=lambda k, st: 1 <= k <= 4 and st in (0x05, 0xFF, 0x13), timeout=600, funcs=F, weight=2,
            desc=f"fragmented {kind} of DINT[60] at connection size 100 (3+ fragments): the controller answers fragment k (symbolic 1..4) with an error status (symbolic choice): the Tag must be falsy with an error")
