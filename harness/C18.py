"""C18  SLC addresses select the right file, element and bit; data round-trips."""
from vlib.ob import Registry
from vlib.sym import concrete
from vlib import scen, chplugin
from vlib.ref import codec as R
from vlib.ref.slc import SlcTarget
from vlib.sym import mkstr, mkfloat, same_float, sym_and
from vlib.tspec import vec_fn, vec_pre
from pycomm3 import SLCDriver
from pycomm3.slc_driver import parse_tag
from pycomm3.exceptions import RequestError, PycommError

REG = Registry("C18")
BOUNDS = {"quick": {"file numbers": "symbolic 1..255 (and 0, 256..999 rejected)", "elements": "symbolic 0..255 (256..999 rejected)", "bits": "0..15 (16..99 rejected), B-file bit numbers 0..4095 (4096..9999 rejected)",
                    "values / prior words": "symbolic over the element type", "counts": "1..4", "case": "file letter upper/lower (symbolic)"}}
OUTSIDE = ["ST / A string files", "counts beyond one packet", "timer/counter sub-element writes"]
TRUSTED = ["vlib.ref.slc reference data table (typed logical read / masked write with three address fields)"]
ASSUMPTIONS = []
F = ["slc_driver.parse_tag", "slc_driver.SLCDriver._read_tag", "slc_driver.SLCDriver._write_tag", "slc_driver.SLCDriver._msg_start", "slc_driver.writeable_value",
     "slc_driver._parse_read_reply", "slc_driver.get_bit", "slc_driver.request_status"]
TYPES = {"N": (2, True), "B": (2, True), "L": (4, True), "S": (2, True), "I": (2, True), "O": (2, True)}


NUMS = [str(i) for i in range(1000)]


def mk(files):
    target = SlcTarget(files=files)
    d = scen.make_driver(target, cls=SLCDriver, cs=500)
    return target, d


def letter(ch, low):
    return mkstr([ord(ch) + 32 * low])


# ---------------------------------------------------------------- address fields (file, element) for word addresses
def _mk_fields(ch):
    n, signed = TYPES[ch]

    def h(f: int, e: int, low: int) -> str:
        try:
            fno = {"S": 2, "I": 1, "O": 0}.get(ch, f)
            mem = [(3 * i + 1) % 256 for i in range(256 * n)]
            target, d = mk({(ch, fno): mem})
            # the file number is rendered through a table lookup: the engine enumerates it, so the address regexes run on concrete digits
            addr = letter(ch, low) + ("" if ch in "SIO" else NUMS[concrete(f)]) + ":" + str(e)
            valid = (ch in "SIO" or 1 <= f <= 255) and 0 <= e <= 255
            try:
                tg = d.read(addr)
            except RequestError:
                return "ok" if not valid else "valid-address-rejected"
            if not valid:
                return "invalid-address-accepted"
            if not tg or tg.error:
                return "falsy:" + str(tg.error)
            if target.pccc_log[-1][:6] != ("read", n, fno, ch, e, 0):
                return "request-fields:" + str(target.pccc_log[-1][:6])
            if tg.value != R.from_le(mem[n * e:n * e + n], signed):
                return "value"
            return "ok" if not target.violations and not d._sock.frame_errors else "protocol"
        except Exception as ex:
            return "exc:" + type(ex).__name__ + ":" + str(ex)[:60]
    return h


for ch in TYPES:
    if ch in "SIO":
        REG.add(f"fields/{ch}", _mk_fields(ch), pre=lambda f, e, low: f == 1 and 0 <= e <= 999 and low in (0, 1), timeout=600, funcs=F, weight=2,
                desc=f"{ch}:e with element symbolic 0..999 (256.. rejected), letter case symbolic: PCCC request fields and value")
    else:
        REG.add(f"fields/{ch}/file", _mk_fields(ch), pre=lambda f, e, low: f in (0, 1, 9, 10, 99, 100, 255, 256, 300) and e == 17 and low in (0, 1), timeout=900, funcs=F, weight=3,
                desc=f"{ch}f:17 through the driver with the file number a symbolic choice of 0, 1, 9, 10, 99, 100, 255, 256, 300 and symbolic letter case (all file numbers: parse/{ch}/file)")
        REG.add(f"fields/{ch}/element", _mk_fields(ch), pre=lambda f, e, low: f == 7 and 0 <= e <= 999 and low == 0, timeout=600, funcs=F, weight=2,
                desc=f"{ch}7:e with element symbolic 0..999 (256.. rejected)")


# ---------------------------------------------------------------- values: read, write-then-read, all values of the element type
def _mk_value(ch):
    n, signed = TYPES[ch]

    def h(v: int, m: bytes) -> str:
        try:
            fno = {"S": 2, "I": 1, "O": 0}.get(ch, 9)
            mem = [0] * (8 * n)
            mem[3 * n:4 * n] = list(m)
            target, d = mk({(ch, fno): mem})
            addr = ch + ("" if ch in "SIO" else "9") + ":3"
            tg = d.read(addr)
            if not tg or not R.eq_le(list(m), signed, tg.value):
                return "read"
            w = d.write((addr, v))
            if not w or w.error:
                return "write:" + str(w.error)
            new = target.files[(ch, fno)]
            ok = R.eq_le(new[3 * n:4 * n], signed, v)
            for i in list(range(0, 3 * n)) + list(range(4 * n, 8 * n)):
                ok = sym_and(ok, new[i] == 0)
            if not ok:
                return "memory"
            back = d.read(addr)
            if not back or back.value != v:
                return "readback"
            return "ok" if not target.violations else "protocol:" + target.violations[0]
        except Exception as ex:
            return "exc:" + type(ex).__name__ + ":" + str(ex)[:60]
    return h


for ch in TYPES:
    n, signed = TYPES[ch]
    REG.add(f"value/{ch}", _mk_value(ch), pre=lambda v, m, n=n: R.in_domain(v, n, True) and len(m) == n, timeout=600, funcs=F,
            desc=f"{ch} element: prior content and written value symbolic over the whole type; neighbours must not change; read-back")


def float_value(bits: int, m: bytes) -> str:
    try:
        mem = [0] * 16
        mem[4:8] = list(m)
        target, d = mk({("F", 8): mem})
        tg = d.read("F8:1")
        if not tg or not same_float(tg.value, R.from_le(list(m)), 4):
            return "read"
        w = d.write(("F8:1", mkfloat(bits, 4)))
        if not w:
            return "write"
        new = target.files[("F", 8)]
        if R.from_le(new[4:8]) != bits or new[:4] != [0] * 4 or new[8:] != [0] * 8:
            return "memory"
        return "ok"
    except Exception as ex:
        return "exc:" + type(ex).__name__ + ":" + str(ex)[:60]


REG.add("value/F", float_value, pre=lambda bits, m: 0 <= bits < 2**32 and len(m) == 4, timeout=600, funcs=F, desc="float file element: all IEEE bit patterns (token model)")


# ---------------------------------------------------------------- bits: N7:e/b and B3/n, read and write (only the addressed bit changes)
def word_bit(b: int, val: bool, m: bytes) -> str:
    try:
        mem = [0] * 8 + list(m) + [0] * 6
        target, d = mk({("N", 7): mem})
        addr = "N7:4/" + str(b)
        if b > 15:
            try:
                d.read(addr)
                return "invalid-bit-accepted"
            except RequestError:
                return "ok"
        tg = d.read(addr)
        word = R.from_le(list(m))
        if not tg or tg.value != ((word // (1 << b)) % 2 == 1):
            return "read"
        w = d.write((addr, val))
        if not w:
            return "write:" + str(w.error)
        new = target.files[("N", 7)]
        old_bit = (word // (1 << b)) % 2
        exp = word + ((1 if val else 0) - old_bit) * (1 << b)
        if R.from_le(new[8:10]) != exp:
            return "other-bits-changed"
        if new[:8] != [0] * 8 or new[10:] != [0] * 6:
            return "neighbours"
        if target.pccc_log[-1][:6] != ("write", 2, 7, "N", 4, 0):
            return "request-fields"
        return "ok" if not target.violations else "protocol:" + target.violations[0]
    except Exception as ex:
        return "exc:" + type(ex).__name__ + ":" + str(ex)[:60]


REG.add("bit/N7:4/b", word_bit, pre=lambda b, val, m: 0 <= b <= 99 and len(m) == 2, timeout=900, funcs=F, weight=2,
        desc="bit number symbolic 0..99 (16.. rejected), prior word and written value symbolic: read, write changes only that bit")


def _mk_bfile(lo, hi):
    names = [str(i) for i in range(lo, hi + 1)]      # small per-obligation table (indexing a 10000-entry list symbolically costs seconds per path)

    def h(nbit: int, val: bool, m: bytes) -> str:
        try:
            nbit = concrete(nbit)
            addr = "B3/" + names[nbit - lo]       # table lookup: the engine enumerates the bit number, prior word and value stay symbolic
            if nbit > 4095:
                try:
                    mk({("B", 3): [0] * 512})[1].read(addr)
                    return "invalid-bit-accepted"
                except RequestError:
                    return "ok"
            e, b = nbit // 16, nbit % 16
            mem = [0] * (2 * (min(hi, 4095) // 16 + 1))
            base = list(mem)
            target, d = mk({("B", 3): mem})
            target.files[("B", 3)] = mem[:2 * e] + list(m) + mem[2 * e + 2:]
            tg = d.read(addr)
            word = R.from_le(list(m))
            if target.pccc_log[-1][:6] != ("read", 2, 3, "B", e, 0):
                return "request-fields:" + str(target.pccc_log[-1][:6])
            if not tg or tg.value != ((word // (1 << b)) % 2 == 1):
                return "read"
            w = d.write((addr, val))
            if not w:
                return "write:" + str(w.error)
            new = target.files[("B", 3)]
            exp = word + ((1 if val else 0) - (word // (1 << b)) % 2) * (1 << b)
            if R.from_le(new[2 * e:2 * e + 2]) != exp:
                return "other-bits-changed"
            if new[:2 * e] != base[:2 * e] or new[2 * e + 2:] != base[2 * e + 2:]:
                return "neighbours"
            return "ok" if not target.violations else "protocol:" + target.violations[0]
        except Exception as ex:
            return "exc:" + type(ex).__name__ + ":" + str(ex)[:60]
    return h


for lo, hi in ((0, 2), (14, 18), (254, 258), (4093, 4097), (9998, 9999)):
    REG.add(f"bit/B3/n/{lo}-{hi}", _mk_bfile(lo, hi), pre=lambda nbit, val, m, lo=lo, hi=hi: lo <= nbit <= hi and len(m) == 2, timeout=1200, funcs=F, weight=3,
            desc=f"binary-file bit form B3/n, n symbolic {lo}..{hi} (4096.. rejected): word n//16, bit n%16; prior word and value symbolic")
for lo, hi in ((0, 64), (200, 300), (4000, 4110)):
    REG.add(f"bit/B3/n/wide/{lo}-{hi}", _mk_bfile(lo, hi), pre=lambda nbit, val, m, lo=lo, hi=hi: lo <= nbit <= hi and len(m) == 2, timeout=3000, tier="thorough", funcs=F, weight=3,
            desc=f"n symbolic {lo}..{hi}")


# ---------------------------------------------------------------- {count}
def counted(cnt: int, a: int, b: int, c: int, d4: int, m: bytes) -> str:
    try:
        mem = [0] * 4 + list(m) + [0] * 12
        target, d = mk({("N", 7): mem})
        tg = d.read("N7:2{" + str(cnt) + "}")
        words = [R.from_le(mem[4 + 2 * i:6 + 2 * i], True) for i in range(cnt)]
        if target.pccc_log[-1][:6] != ("read", 2 * cnt, 7, "N", 2, 0):
            return "request-fields:" + str(target.pccc_log[-1][:6])
        if not tg or (tg.value != words if cnt > 1 else tg.value != words[0]):
            return "read"
        vals = [a, b, c, d4][:cnt]
        w = d.write(("N7:2{" + str(cnt) + "}", vals if cnt > 1 else vals[0]))
        if not w:
            return "write:" + str(w.error)
        new = target.files[("N", 7)]
        ok = True
        for i in range(cnt):
            ok = sym_and(ok, R.eq_le(new[4 + 2 * i:6 + 2 * i], True, vals[i]))
        for i in range(4 + 2 * cnt, 24):
            ok = sym_and(ok, new[i] == mem[i])
        if not ok or new[:4] != [0] * 4:
            return "memory"
        return "ok" if not target.violations else "protocol:" + target.violations[0]
    except Exception as ex:
        return "exc:" + type(ex).__name__ + ":" + str(ex)[:60]


REG.add("count/N7:2{n}", counted, pre=lambda cnt, a, b, c, d4, m: 1 <= cnt <= 4 and all(R.in_domain(x, 2, True) for x in (a, b, c, d4)) and len(m) == 8, timeout=900, funcs=F,
        desc="count symbolic 1..4, prior words and written values symbolic: exactly `count` consecutive elements are covered")


# ---------------------------------------------------------------- timer / counter sub-elements (reads)
def timer(k: int, m: bytes) -> str:
    try:
        subs = [("PRE", "word", 2), ("ACC", "word", 4), ("EN", "bit", 15), ("TT", "bit", 14), ("DN", "bit", 13)]
        name, kind, p = subs[k]
        mem = [0] * 6 + list(m) + [0] * 6
        target, d = mk({("T", 4): mem})
        tg = d.read("T4:1." + name)
        if target.pccc_log[-1][:6] != ("read", 6, 4, "T", 1, 0):
            return "request-fields:" + str(target.pccc_log[-1][:6])
        if kind == "word":
            return "ok" if tg and R.eq_le(list(m[p:p + 2]), True, tg.value) else "value"
        word = R.from_le(list(m[0:2]))
        return "ok" if tg and tg.value == ((word // (1 << p)) % 2 == 1) else "bit"
    except Exception as ex:
        return "exc:" + type(ex).__name__ + ":" + str(ex)[:60]


REG.add("timer/T4:1.sub", timer, pre=lambda k, m: 0 <= k < 5 and len(m) == 6, timeout=600, funcs=F, desc="PRE/ACC/EN/TT/DN of a timer element whose 6 bytes are symbolic")


def counter(k: int, m: bytes) -> str:
    try:
        subs = [("PRE", "word", 2), ("ACC", "word", 4), ("CU", "bit", 15), ("CD", "bit", 14), ("DN", "bit", 13), ("OV", "bit", 12), ("UN", "bit", 11)]
        name, kind, p = subs[k]
        target, d = mk({("C", 5): list(m) + [0] * 6})
        tg = d.read("C5:0." + name)
        if kind == "word":
            return "ok" if tg and R.eq_le(list(m[p:p + 2]), True, tg.value) else "value"
        word = R.from_le(list(m[0:2]))
        return "ok" if tg and tg.value == ((word // (1 << p)) % 2 == 1) else "bit"
    except Exception as ex:
        return "exc:" + type(ex).__name__ + ":" + str(ex)[:60]


REG.add("counter/C5:0.sub", counter, pre=lambda k, m: 0 <= k < 7 and len(m) == 6, timeout=600, funcs=F, desc="PRE/ACC/CU/CD/DN/OV/UN of a counter element whose 6 bytes are symbolic")


# ---------------------------------------------------------------- unsupported file types / malformed addresses
def unsupported(c: int, f: int) -> str:
    try:
        ch = mkstr([c])
        try:
            mk({("N", 7): [0] * 16})[1].read(ch + str(f) + ":0")
        except RequestError:
            return "ok"
        except PycommError as ex:
            return "other-library-exception:" + type(ex).__name__
        return "accepted"
    except Exception as ex:
        return "exc:" + type(ex).__name__ + ":" + str(ex)[:60]


REG.add("unsupported-letter", unsupported, pre=lambda c, f: 65 <= c <= 90 and c not in [ord(x) for x in "NBLFSIOTCA"] and 1 <= f <= 99, timeout=600, funcs=F,
        desc="file letter symbolic over the unsupported upper-case letters, file number symbolic: RequestError")


def malformed(replay=None):
    bad = []
    for addr in ["N7", "N7:", ":3", "N7:1000", "N7:1/16", "N7:1/", "N256:0", "N0:0", "B3/4096", "B0/1", "B256/1", "T4:1", "T4:1.XYZ", "C5:300.ACC", "N7:1{", "N7:1{}", "xN7:1", "N7:1 ",
                 "F8:256", "L9:256", "S:256", "I:256", "O:300", "", "7:1", "N7;1"]:
        try:
            r = parse_tag(addr)
            if r is not None:
                bad.append(addr)
        except Exception as ex:
            bad.append(addr + ":" + type(ex).__name__)
    if replay is not None:
        return {"reproduced": bool(bad)}
    return {"status": "confirmed", "queries": 0} if not bad else {"status": "refuted", "cex": {"addresses": bad}, "reproduced": True, "detail": f"malformed addresses accepted: {bad}"}


REG.add("malformed-addresses", malformed, engine="N", twin=False, funcs=F[:1], desc="finite list of malformed / out-of-range addresses: parse_tag must reject each")


# ---------------------------------------------------------------- parse level: every file number / element / bit through parse_tag alone
def _mk_parse(ch):
    def h(f: int, e: int, b: int, low: int) -> str:
        try:
            f, e, b = concrete(f), concrete(e), concrete(b)
            addr = letter(ch, low) + NUMS[f] + ":" + NUMS[e] + ("/" + NUMS[b] if b < 100 else "")
            r = parse_tag(addr)
            valid = 1 <= f <= 255 and 0 <= e <= 255 and (b >= 100 or b <= 15)
            if not valid:
                return "ok" if r is None else "invalid-address-accepted"
            if r is None:
                return "valid-address-rejected"
            if r["file_type"] != ch or int(r["file_number"]) != f or int(r["element_number"]) != e:
                return "fields"
            if b < 100 and (int(r["sub_element"]) != b or r["address_field"] != 3):
                return "bit-field"
            if b >= 100 and r["address_field"] != 2:
                return "address-field"
            return "ok"
        except Exception as ex:
            return "exc:" + type(ex).__name__ + ":" + str(ex)[:60]
    return h


def _edge(x):
    return 0 <= x <= 12 or 95 <= x <= 105 or 250 <= x <= 262 or 995 <= x <= 999


for ch in ("N", "B", "L", "F"):
    REG.add(f"parse/{ch}/file/edges", _mk_parse(ch), pre=lambda f, e, b, low: _edge(f) and e == 5 and b == 100 and low in (0, 1), timeout=600, funcs=F[:1], weight=2,
            desc=f"parse_tag('{ch}<f>:5'): file number symbolic over 0..12, 95..105, 250..262, 995..999 (digit-count and range boundaries), letter case symbolic")
    REG.add(f"parse/{ch}/element+bit/edges", _mk_parse(ch), pre=lambda f, e, b, low: f == 7 and _edge(e) and b in (100, 0, 15, 16, 99) and low == 0, timeout=600, funcs=F[:1], weight=2,
            desc=f"parse_tag('{ch}7:<e>[/b]'): element symbolic over the boundary ranges, bit in (none, 0, 15, 16, 99)", tier="quick" if ch in ("N", "B") else "thorough")
    for lo in (0, 250, 500, 750):
        REG.add(f"parse/{ch}/file/all/{lo}-{lo + 249}", _mk_parse(ch), pre=lambda f, e, b, low, lo=lo: lo <= f < lo + 250 and e == 5 and b == 100 and low in (0, 1), timeout=1500, funcs=F[:1],
                weight=2, tier="thorough", desc=f"file number symbolic over {lo}..{lo + 249} (enumerated), letter case symbolic")
        REG.add(f"parse/{ch}/element/all/{lo}-{lo + 249}", _mk_parse(ch), pre=lambda f, e, b, low, lo=lo: f == 7 and lo <= e < lo + 250 and b == 100 and low == 0, timeout=1500, funcs=F[:1],
                weight=2, tier="thorough", desc=f"element symbolic over {lo}..{lo + 249} (enumerated)")
