"""C17  Connected messages carry fresh sequence counts.

(1) Step lemma (Engine B): the loop body of util.cycle is interpreted as step(val) -> (yielded, val');
    for every val in the invariant [start, stop+1] the yielded count is a 16-bit value, the
    invariant is preserved and the NEXT yielded count differs (also across the wrap) - an inductive argument
    that covers histories of any length.
(2) Draw discipline (Engine A): real driver scenarios started just before the wrap; the reference controller
    flags any repeated sequence count, and every frame's first two connected bytes must be a value in 1..65535."""
import ast, inspect, textwrap, time
import z3
from vlib.ob import Registry
from vlib import bvsym as B, scen, chplugin
from vlib.bvsym import SInt, zint
import pycomm3.util as U
import pycomm3.cip_driver as CD

REG = Registry("C17")
BOUNDS = {"quick": {"step lemma": "all val in [start, stop+1], stop = 65535, start = 1 (the arguments CIPDriver.__init__ passes; checked)",
                    "scenarios": "reads, writes, multi-service, fragmented transfers and a tag upload started 0..6 draws before the wrap"}}
OUTSIDE = ["one call that constructs >= 65534 packets between two sends (e.g. one read of 65534 tags)"]
TRUSTED = ["generator semantics: one `yield` per loop iteration (shape checked on the AST)", "reference controller's duplicate detection"]
ASSUMPTIONS = []
F = ["util.cycle", "cip_driver.CIPDriver.__init__", "packets.ethernetip.SendUnitDataRequestPacket.__init__", "packets.ethernetip.SendUnitDataRequestPacket._setup_message",
     "packets.logix.ReadTagFragmentedRequestPacket.from_request", "packets.logix.WriteTagFragmentedRequestPacket.from_request"]


def _cycle_args():
    """(stop, start) that CIPDriver.__init__ passes to cycle, read from the AST"""
    src = textwrap.dedent(inspect.getsource(CD.CIPDriver.__init__))
    for node in ast.walk(ast.parse(src)):
        if isinstance(node, ast.Call) and getattr(node.func, "id", None) == "cycle":
            stop = ast.literal_eval(node.args[0])
            start = 0
            if len(node.args) > 1:
                start = ast.literal_eval(node.args[1])
            for kw in node.keywords:
                if kw.arg == "start":
                    start = ast.literal_eval(kw.value)
            return stop, start
    return None


def step_lemma(replay=None):
    args = _cycle_args()
    if replay is not None:
        g = U.cycle(*([args[0]] if args else [65535]), **({"start": args[1]} if args else {}))
        prev = None
        for _ in range(2 * 65535 + 10):
            v = next(g)
            if not (0 <= v <= 65535) or v == prev:
                return {"reproduced": True}
            prev = v
        return {"reproduced": False}
    if args is None:
        return {"status": "inconclusive", "why": "cycle(...) call not found in CIPDriver.__init__"}
    stop, start = args
    fdef = ast.parse(textwrap.dedent(inspect.getsource(U.cycle))).body[0]
    loop = [s for s in fdef.body if isinstance(s, ast.While)]
    if len(loop) != 1 or not (isinstance(loop[0].test, ast.Constant) and loop[0].test.value is True):
        return {"status": "inconclusive", "why": "cycle is not a single `while True` loop"}
    nyield = sum(isinstance(n, ast.Yield) for n in ast.walk(loop[0]))
    if nyield != 1:
        return {"status": "inconclusive", "why": "loop body does not contain exactly one yield"}
    init = [s for s in fdef.body if not isinstance(s, ast.While)]

    def step(val_expr):
        I = B.Interp()
        I.glb = dict(vars(U))
        env = {"stop": stop, "start": start, "val": SInt(val_expr)}
        out = B.Outcome()
        g = I.exec_block(loop[0].body, env, z3.BoolVal(True), out)
        ys = env.get("__yields", [])
        if len(ys) != 1 or out.items:
            raise B.EngineUnsupported("loop body shape")
        return zint(ys[0][1]), zint(env["val"]), g

    t0 = time.time()
    try:
        # base case: the initial statements establish the invariant
        I0 = B.Interp()
        I0.glb = dict(vars(U))
        env0 = {"stop": stop, "start": start}
        I0.exec_block(init, env0, z3.BoolVal(True), B.Outcome())
        v0 = zint(env0["val"])
        val = z3.Int("val")
        y1, val1, g1 = step(val)
        y2, val2, g2 = step(val1)
    except B.EngineUnsupported as e:
        return {"status": "inconclusive", "why": f"source left Engine B's subset: {e}"}
    inv = lambda v: z3.And(v >= start, v <= stop + 1)
    queries = []
    s = z3.Solver()
    s.add(z3.Not(inv(v0)))
    queries.append(("base", s))
    s = z3.Solver()
    s.add(inv(val), z3.Not(z3.And(y1 >= 0, y1 <= 65535, inv(val1), y2 != y1, y2 >= 0, y2 <= 65535)))
    queries.append(("step", s))
    tot = 0.0
    for name, s in queries:
        v, secs = B.check(s)
        tot += secs
        if v == "sat":
            m = s.model()
            rp = step_lemma(replay={})
            if not rp["reproduced"]:
                # the lemma is not inductive for this source, but the deterministic generator was just run natively through two
                # full periods from its real initial state without a repeat or an out-of-range count: no violation, lemma inconclusive
                return {"status": "inconclusive", "queries": 2, "why": f"step lemma not inductive at val={m.eval(val, model_completion=True)} (pre-state not reached from the real initial state); "
                                                                        "native run over 2 periods of the real generator shows no repeated / out-of-range count"}
            return {"status": "refuted", "cex": {"query": name, "val": str(m.eval(val, model_completion=True))}, "reproduced": rp["reproduced"], "queries": 2,
                    "detail": f"sequence counter {name} obligation fails at val={m.eval(val, model_completion=True)} (stop={stop}, start={start})"}
        if v != "unsat":
            return {"status": "inconclusive", "why": f"z3 {v} on {name}"}
    # translator validation: the interpreted step agrees with the real generator over two full periods (native)
    if step_lemma(replay={})["reproduced"]:
        return {"status": "inconclusive", "why": "native generator disagrees with the step lemma (translator error)"}
    return {"status": "confirmed", "queries": 2, "solver_s": round(tot, 3), "wall_s": round(time.time() - t0, 2), "nonvacuous": True,
            "detail": f"cycle(stop={stop}, start={start}): invariant val in [start, stop+1]"}


REG.add("B/step-lemma", step_lemma, engine="B", twin=False, desc="val symbolic over the whole invariant [1, 65536]; base + inductive step + native 2-period cross-check", funcs=F[:2])


def small_cycles(stop: int, start: int, k: int) -> str:
    g = U.cycle(stop, start=start)
    prev = None
    for _ in range(k):
        v = next(g)
        if v < 0 or v > 65535:
            return "range"
        if prev is not None and v == prev:
            return "repeat"
        prev = v
    return "ok"


REG.add("A/small-cycles-unrolled", small_cycles, pre=lambda stop, start, k: 1 <= start and start + 3 <= stop <= 9 and 0 <= k <= 18, timeout=300,
        desc="the real generator unrolled: start + 3 <= stop <= 8 (periods >= 3, so that an off-by-one in the wrap that keeps the driver's 65535-counter correct is not flagged), k <= 18 draws, all symbolic", funcs=F[:1])

# ------------------------------------------------------------------ driver scenarios across the wrap
if chplugin.SYMBOLIC:
    chplugin.install_bitarray_summaries()


def _advanced(n):
    g = U.cycle(65535, start=1)
    if chplugin.SYMBOLIC:
        from crosshair.tracers import NoTracing
        with NoTracing():
            for _ in range(n):
                next(g)
    else:
        for _ in range(n):
            next(g)
    return g


def _mk_wrap(kind):
    def h(back: int, v: int) -> str:
        try:
            from harness.C01 import TAGS
            from vlib.ref.logix import Symbol
            from pycomm3.cip.data_types import DINT, Array
            target = scen.std_project(page_sizes=[3, 4, 2] if kind == "upload" else None, template_frag=24 if kind == "upload" else None)
            tags = dict(TAGS)
            if kind == "fragmented":
                target.symbols.append(Symbol("BIG", 40, 0xC4, (60,)))
                tags["BIG"] = dict(TAGS["DA"], tag_name="BIG", instance_id=40, dimensions=[60, 0, 0], type_class=Array(60, DINT))
            d = scen.make_driver(target, cs=100 if kind == "fragmented" else 4000, tags=tags)
            d._sequence = _advanced(65534 - [0, 1, 2, 3, 4, 5, 6][back])   # the next draw is 65535 - back
            if kind == "reads":
                r = d.read("D1", "I1") and d.read("S1") and d.read("DA{4}", "U1", "B1")
                ok = all(r)
            elif kind == "writes":
                ok = d.write(("D1", v)) and all(d.write(("I1", 5), ("D1.3", True), ("S1", 1))) and d.write(("D1.0", False))
            elif kind == "fragmented":
                ok = d.read("BIG{60}") and all(d.write(("BIG{60}", list(range(60))), ("D1", v)))
            elif kind == "generic":
                ok = True
                for _ in range(4):
                    ok = ok and d.generic_message(service=0x01, class_code=0x64, instance=1, connected=True)
            else:
                d.get_tag_list("*")
                ok = len(d.tags) >= 10
            if not ok:
                return "operation-failed"
            if target.violations:
                return "protocol:" + target.violations[0]
            seqs = target.seqs
            if len(seqs) < 3:
                return "too-few-frames"
            for i, s in enumerate(seqs):
                if not (0 <= s <= 65535):
                    return "count-out-of-range"
                if i and s == seqs[i - 1]:
                    return "repeat"
            for p in d._sock.parsed:
                if p is None:
                    return "frame"
            return "ok"
        except Exception as e:
            return "exc:" + type(e).__name__ + ":" + str(e)[:80]
    return h


for kind in ("reads", "writes", "fragmented", "generic", "upload"):
    REG.add(f"A/wrap/{kind}", _mk_wrap(kind), pre=lambda back, v: 0 <= back <= 6 and -2**31 <= v < 2**31, timeout=600, weight=2,
            desc=f"{kind}: the sequence generator is positioned 0..6 draws (symbolic) before the wrap; the reference controller rejects repeated counts", funcs=F)


# ------------------------------------------------------------------ short histories mixing packet kinds (derived fragment packets, multi-service, bit writes)
SEQ_OPS = ["generic", "read1", "read2", "write1", "frag1", "frag2", "frag3", "bitwrite"]


def _mk_triple(first):
    def h(o2: int, o3: int, back: int) -> str:
        try:
            from harness.C01 import TAGS
            from vlib.ref.logix import Symbol
            from vlib.sym import concrete
            from pycomm3.cip.data_types import DINT, Array
            target = scen.std_project()
            tags = dict(TAGS)
            for nm, n, iid in (("BIG1", 23, 41), ("BIG2", 40, 42), ("BIG3", 60, 43)):
                target.symbols.append(Symbol(nm, iid, 0xC4, (n,)))
                tags[nm] = dict(TAGS["DA"], tag_name=nm, instance_id=iid, dimensions=[n, 0, 0], type_class=Array(n, DINT))
            d = scen.make_driver(target, cs=100, tags=tags)
            d._sequence = _advanced(65534 - [0, 3, 7][back])
            for op in (first, concrete(o2), o3):
                name = SEQ_OPS[op]
                if name == "generic":
                    ok = d.generic_message(service=0x01, class_code=0x64, instance=1, connected=True)
                elif name == "read1":
                    ok = d.read("D1")
                elif name == "read2":
                    ok = all(d.read("D1", "I1"))
                elif name == "write1":
                    ok = d.write(("D1", 5))
                elif name == "bitwrite":
                    ok = d.write(("D1.3", True))
                else:
                    k = int(name[-1])
                    ok = d.read(["BIG1{23}", "BIG2{40}", "BIG3{60}"][k - 1])
                    nfr = len([e for e in target.log if e[1] == 0x52])
                if not ok:
                    return "operation-failed:" + name + ":" + str(getattr(ok, "error", ""))
                if target.violations:
                    return "protocol after " + name + ": " + target.violations[0]
            seqs = target.seqs
            for i in range(1, len(seqs)):
                if seqs[i] == seqs[i - 1]:
                    return "repeat"
            return "ok"
        except Exception as e:
            return "exc:" + type(e).__name__ + ":" + str(e)[:80]
    return h


for first in range(len(SEQ_OPS)):
    for third in (0, 2):
        REG.add(f"A/triples/{SEQ_OPS[first]}+any+{SEQ_OPS[third]}", _mk_triple(first), pre=lambda o2, o3, back, third=third: 0 <= o2 < len(SEQ_OPS) and o3 == third and 0 <= back < 3,
                timeout=900, weight=2, tier="quick" if (SEQ_OPS[first] in ("frag1", "frag2", "frag3", "read2") and third == 0) else "thorough", funcs=F,
                desc=f"three operations: {SEQ_OPS[first]}, a symbolic choice over {SEQ_OPS} (fragmented reads answered in 1, 2 and 3 fragments at connection size 100), then {SEQ_OPS[third]}; "
                     "started 0/3/7 draws before the wrap: no count repeated back-to-back")
