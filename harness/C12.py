"""C12  Reply frames survive any TCP segmentation (Socket.receive / Socket.send).

Engine B: the real source of Socket.receive and Socket.send is interpreted with path merging; the
chunks returned by recv are z3 sequences of symbolic length and content, a chunk may be empty (peer
closed) and any recv/send may raise socket.error.  Engine A complements with frames of concrete
small length cut at symbolic positions (covers 1-byte chunks beyond B's unrolling bound)."""
import socket, struct, time
import z3
from vlib.ob import Registry
from vlib import bvsym as B
from vlib.bvsym import SInt, SBool, SBytes, zint, zbytes, BSEQ
import pycomm3.socket_ as sockmod
from pycomm3.socket_ import Socket
from pycomm3.exceptions import CommError

REG = Registry("C12")
BOUNDS = {"quick": {"recv calls (Engine B)": "<= 3 for the header and <= 3 for the body (unwinding assumption), chunk length 0..256 symbolic",
                    "send calls (Engine B)": "<= 4, message length symbolic", "Engine A": "26..30-byte frames cut at <= 2 symbolic positions, and 1-byte chunking of a 26-byte frame"},
          "thorough": {"recv calls (Engine B)": "<= 4 + 4", "send calls": "<= 6"}}
OUTSIDE = ["frames that need more recv calls per phase than the unrolling bound (beyond the Engine A complement)", "data following the frame in the same TCP segment"]
TRUSTED = ["recv/send stubs: recv returns an arbitrary chunk of 0..256 bytes (b'' = peer closed) or raises socket.error; send accepts an arbitrary prefix 0..len or raises"]
ASSUMPTIONS = ["unwinding assumptions are part of the solver query (loop condition false after K iterations)"]
F = ["socket_.Socket.receive", "socket_.Socket.send"]


class _Raw:
    pass


class _Self:
    pass


def _frame_len_ok(fr):
    return z3.And(z3.Length(fr) >= 24, z3.BV2Int(fr[2]) + 256 * z3.BV2Int(fr[3]) == z3.Length(fr) - 24)


def _need_more(pre):
    return z3.Or(z3.Length(pre) < 24, z3.BV2Int(pre[2]) + 256 * z3.BV2Int(pre[3]) > z3.Length(pre) - 24)


class HangGuard(Exception):
    pass


def native_receive(chunks, fault_at=None):
    """run the real receive on a concrete chunk script -> ('return', bytes) | ('raise', ExcName) | ('hang',)"""
    s = Socket.__new__(Socket)
    raw = _Raw()
    st = {"i": 0}

    def recv(n):
        i = st["i"]
        st["i"] += 1
        if i > len(chunks) + 50:
            raise HangGuard()
        if fault_at is not None and i == fault_at:
            raise socket.error("injected")
        return chunks[i] if i < len(chunks) else b""
    raw.recv = recv
    raw.settimeout = lambda t: None
    s.sock = raw
    try:
        return ("return", s.receive(), st["i"])
    except HangGuard:
        return ("hang",)
    except Exception as e:
        return ("raise", type(e).__name__, st["i"])


def _receive_ob(K):
    def run(replay=None):
        if replay is not None:
            chunks = [bytes(c) for c in replay["chunks"]]
            r = native_receive(chunks, replay.get("fault_at"))
            return {"reproduced": not _receive_spec(chunks, replay.get("fault_at"), r), "native": repr(r)[:200]}
        NCH = 2 * K + 2
        chunks = [z3.Const(f"c{i}", BSEQ) for i in range(NCH)]
        faults = [z3.Bool(f"fault{i}") for i in range(NCH)]
        selfobj = _Self()
        selfobj.sock = _Raw()
        I = B.Interp(unroll=K)

        def recv_stub(interp, guard, out, env, n):
            cnt = env.get("__recv_n", 0)
            env["__recv_n"] = SInt(zint(cnt) + 1)
            e = chunks[-1]
            f = faults[-1]
            for i in reversed(range(NCH - 1)):
                e = z3.If(zint(cnt) == i, chunks[i], e)
                f = z3.If(zint(cnt) == i, faults[i], f)
            out.add(z3.And(guard, f), "raise", socket.error("injected"))
            interp.pending.append(f)
            return SBytes(e)

        def settimeout_stub(interp, guard, out, env, t):
            return None

        def unpack_from_stub(interp, guard, out, env, fmt, data, off):
            if fmt != "<H" or off != 2:
                raise B.EngineUnsupported("unpack_from form")
            s = zbytes(data)
            short = z3.Length(s) < 4
            out.add(z3.And(guard, short), "raise", struct.error("short"))
            interp.pending.append(short)
            return (SInt(z3.BV2Int(s[2]) + 256 * z3.BV2Int(s[3])),)

        selfobj.sock.recv = recv_stub
        selfobj.sock.settimeout = settimeout_stub
        I.stubs[recv_stub] = recv_stub
        I.stubs[settimeout_stub] = settimeout_stub
        I.stubs[struct.unpack_from] = unpack_from_stub
        t0 = time.time()
        try:
            out = I.run(Socket.receive, [selfobj, 0], glb=dict(vars(sockmod)))
        except B.EngineUnsupported as e:
            return {"status": "inconclusive", "why": f"source left Engine B's subset: {e}"}
        env_ok = z3.And(*[z3.Length(c) <= 256 for c in chunks])
        results = list(out.items)

        def prefix(k):
            return chunks[0] if k == 1 else z3.Concat(*chunks[:k])
        queries, solver_s = 0, 0.0
        verdicts = []
        # (1) a frame split into k non-empty chunks, no fault: receive returns exactly the frame
        # (2) an empty chunk or a fault at call j before the frame is complete: CommError, never a return, no other exception
        for k in range(1, 2 * K + 1):
            fr = prefix(k)
            nonempty = z3.And(*[z3.Length(c) >= 1 for c in chunks[:k]])
            nofault = z3.And(*[z3.Not(f) for f in faults[:k]])
            shorter = z3.BoolVal(True) if k == 1 else _need_more(prefix(k - 1))
            is_frame = z3.And(nonempty, nofault, shorter, _frame_len_ok(fr))
            ok_k = z3.Or(*[z3.And(g, zbytes(v) == fr) for (g, kind, v) in results if kind == "return"] + [z3.BoolVal(False)])
            s = z3.Solver()
            s.add(env_ok, *I.assumptions, is_frame, z3.Not(ok_k))
            v, secs = B.check(s, 300000)
            queries += 1
            solver_s += secs
            verdicts.append(("frame-in-%d-chunks" % k, v))
            if v == "sat":
                m = s.model()
                cs = [_seq_bytes(m, c) for c in chunks[:k]]
                rp = run(replay={"chunks": [list(c) for c in cs]})
                return {"status": "refuted", "cex": {"chunks": [list(c) for c in cs]}, "reproduced": rp["reproduced"], "queries": queries,
                        "detail": f"frame split into chunks of {[len(c) for c in cs]} bytes is not returned intact: {rp.get('native')}"}
            if v != "unsat":
                return {"status": "inconclusive", "why": f"z3 {v} on frame-in-{k}-chunks", "queries": queries}
        for j in range(0, 2 * K):
            pre_ok = z3.And(*[z3.And(z3.Length(c) >= 1, z3.Not(f)) for c, f in zip(chunks[:j], faults[:j])] + [z3.BoolVal(True)])
            incomplete = z3.BoolVal(True) if j == 0 else _need_more(prefix(j))
            broken = z3.And(pre_ok, incomplete, z3.Or(faults[j], z3.Length(chunks[j]) == 0))
            good = z3.Or(*[g for (g, kind, v) in results if kind == "raise" and isinstance(v, CommError)] + [z3.BoolVal(False)])
            s = z3.Solver()
            s.add(env_ok, *I.assumptions, broken, z3.Not(good))
            v, secs = B.check(s, 300000)
            queries += 1
            solver_s += secs
            if v == "sat":
                m = s.model()
                cs = [_seq_bytes(m, c) for c in chunks[:j + 1]]
                fa = j if z3.is_true(m.eval(faults[j], model_completion=True)) else None
                rp = run(replay={"chunks": [list(c) for c in cs], "fault_at": fa})
                return {"status": "refuted", "cex": {"chunks": [list(c) for c in cs], "fault_at": fa}, "reproduced": rp["reproduced"], "queries": queries,
                        "detail": f"peer closed / socket error at recv #{j} before the frame is complete does not end in CommError: {rp.get('native')}"}
            if v != "unsat":
                return {"status": "inconclusive", "why": f"z3 {v} on broken-at-{j}", "queries": queries}
        # no other exception class on any path
        s = z3.Solver()
        s.add(env_ok, *I.assumptions, z3.Or(*[g for (g, kind, v) in results if kind == "raise" and not isinstance(v, CommError)] + [z3.BoolVal(False)]))
        v, secs = B.check(s, 300000)
        queries += 1
        solver_s += secs
        if v == "sat":
            m = s.model()
            cs = [_seq_bytes(m, c) for c in chunks[:3]]
            rp = run(replay={"chunks": [list(c) for c in cs]})
            return {"status": "refuted", "cex": {"chunks": [list(c) for c in cs]}, "reproduced": rp["reproduced"], "queries": queries,
                    "detail": f"an exception other than CommError escapes receive: {rp.get('native')}"}
        if v != "unsat":
            return {"status": "inconclusive", "why": f"z3 {v} on foreign-exception", "queries": queries}
        s2 = z3.Solver()
        s2.add(env_ok, *I.assumptions, z3.Or(*[g for (g, kind, _) in results if kind == "return"]))
        queries += 1
        return {"status": "confirmed", "queries": queries, "solver_s": round(solver_s, 2), "wall_s": round(time.time() - t0, 2),
                "nonvacuous": str(s2.check()) == "sat", "detail": f"K={K} recv calls per loop; outcomes: {len(results)}"}
    return run


def _receive_spec(chunks, fault_at, r):
    """reference semantics on a concrete script: what must receive do?"""
    data = b""
    for i, c in enumerate(chunks + [b""]):
        if fault_at is not None and i == fault_at:
            return r[0] == "raise" and r[1] == "CommError"
        if len(c) == 0:
            return r[0] == "raise" and r[1] == "CommError"
        data += c
        if len(data) >= 24 and len(data) - 24 >= data[2] + 256 * data[3]:
            return r[0] == "return" and r[1] == data and r[2] == i + 1
    return False


def _seq_bytes(m, c):
    v = m.eval(c, model_completion=True)
    n = m.eval(z3.Length(c), model_completion=True).as_long()
    out = []
    for i in range(n):
        b = m.eval(c[i], model_completion=True)
        out.append(b.as_long() if z3.is_bv_value(b) else 0)
    return bytes(out)


REG.add("B/receive/K3", _receive_ob(3), engine="B", twin=False, timeout=900, funcs=F[:1],
        desc="recv chunks = z3 sequences of symbolic length 0..256 and content; <= 3 recv calls per loop; empty chunk or socket.error at any call")
REG.add("B/receive/K4", _receive_ob(4), engine="B", twin=False, timeout=3000, tier="thorough", funcs=F[:1], desc="as K3 with <= 4 recv calls per loop")


# ------------------------------------------------------------------ send
def native_send(msg, counts, fault_at=None):
    s = Socket.__new__(Socket)
    raw = _Raw()
    st = {"i": 0, "got": b""}

    def send(data):
        i = st["i"]
        st["i"] += 1
        if i > len(counts) + 50:
            raise HangGuard()
        if fault_at is not None and i == fault_at:
            raise socket.error("injected")
        c = min(counts[i] if i < len(counts) else len(data), len(data))
        st["got"] += data[:c]
        return c
    raw.send = send
    raw.settimeout = lambda t: None
    s.sock = raw
    try:
        return ("return", s.send(msg), st["got"], st["i"])
    except HangGuard:
        return ("hang",)
    except Exception as e:
        return ("raise", type(e).__name__, st["got"], st["i"])


def _send_spec(msg, counts, fault_at, r):
    sent = 0
    i = 0
    while sent < len(msg):
        if fault_at is not None and i == fault_at:
            return r[0] == "raise" and r[1] == "CommError"
        c = min(counts[i] if i < len(counts) else len(msg) - sent, len(msg) - sent)
        if c == 0:
            return r[0] == "raise" and r[1] == "CommError"
        sent += c
        i += 1
    return r[0] == "return" and r[1] == len(msg) and r[2] == msg and r[3] == i


def _send_ob(K):
    def run(replay=None):
        if replay is not None:
            msg = bytes(replay["msg"])
            r = native_send(msg, replay["counts"], replay.get("fault_at"))
            return {"reproduced": not _send_spec(msg, replay["counts"], replay.get("fault_at"), r), "native": repr(r)[:200]}
        msg = z3.Const("msg", BSEQ)
        counts = [z3.Int(f"n{i}") for i in range(K + 2)]
        faults = [z3.Bool(f"fault{i}") for i in range(K + 2)]
        selfobj = _Self()
        selfobj.sock = _Raw()
        I = B.Interp(unroll=K)

        # The loop hands `msg[total_sent:]` to sock.send; the slice start of every call is recorded (Interp.slice hook) and the
        # stub accepts an arbitrary prefix of what it is given.  "All bytes once, in order" then is integer arithmetic:
        # start_0 == 0, start_{i+1} == start_i + taken_i, and on return sum(taken) == len(msg) == return value.
        starts = []
        orig_slice = I.slice

        def slice_hook(base, lo, hi):
            if isinstance(base, SBytes) and hi is None:
                starts.append(zint(lo) if lo is not None else z3.IntVal(0))
            return orig_slice(base, lo, hi)
        I.slice = slice_hook
        taken = []

        def send_stub(interp, guard, out, env, data):
            cnt = env.get("__send_n", 0)
            env["__send_n"] = SInt(zint(cnt) + 1)
            n = counts[-1]
            f = faults[-1]
            for i in reversed(range(K + 1)):
                n = z3.If(zint(cnt) == i, counts[i], n)
                f = z3.If(zint(cnt) == i, faults[i], f)
            d = zbytes(data)
            take = z3.If(n > z3.Length(d), z3.Length(d), n)
            taken.append((guard, take, z3.Length(d)))
            out.add(z3.And(guard, f), "raise", socket.error("injected"))
            interp.pending.append(f)
            return SInt(take)

        def settimeout_stub(interp, guard, out, env, t):
            return None
        selfobj.sock.send = send_stub
        selfobj.sock.settimeout = settimeout_stub
        I.stubs[send_stub] = send_stub
        I.stubs[settimeout_stub] = settimeout_stub
        t0 = time.time()
        try:
            out = I.run(Socket.send, [selfobj, SBytes(msg), 0], glb=dict(vars(sockmod)))
        except B.EngineUnsupported as e:
            return {"status": "inconclusive", "why": f"source left Engine B's subset: {e}"}
        results = list(out.items)
        env_ok = z3.And(z3.Length(msg) <= 65535, *[c >= 0 for c in counts])
        nofault = z3.And(*[z3.Not(f) for f in faults])
        queries, solver_s = 0, 0.0
        if len(starts) != len(taken):
            # the loop does not hand `msg[offset:]` to every send call: fall back to native probes of partial-send patterns (translator validation)
            for msgb, cn in ((b"ab", [1, 1]), (b"abcd", [2, 2]), (b"abcdef", [1, 2, 3]), (bytes(range(10)), [5, 5]), (bytes(range(9)), [4, 4, 1])):
                rp = run(replay={"msg": list(msgb), "counts": cn, "fault_at": None})
                if rp["reproduced"]:
                    return {"status": "refuted", "cex": {"msg": list(msgb), "counts": cn, "fault_at": None}, "reproduced": True, "queries": 0,
                            "detail": f"send with partial-send pattern {cn} does not deliver all bytes in order: {rp.get('native')}"}
            return {"status": "inconclusive", "why": "send loop shape not recognised (slice/send calls do not pair up); native partial-send probes pass"}
        # (0) tiling: under the guard of call i, its slice starts where the previous calls' bytes end, and it is given the whole rest
        tiling_bad = []
        run_sum = z3.IntVal(0)
        for i, ((g, take, given), st) in enumerate(zip(taken, starts)):
            tiling_bad.append(z3.And(g, z3.Or(st != run_sum, given != z3.Length(msg) - run_sum)))
            run_sum = run_sum + take
        # (1) every returning path returns len(msg) and has handed over exactly len(msg) bytes
        rets = [r for r in results if r[1] == "return"]
        total_on = lambda g: z3.Sum([z3.If(z3.And(tg, g) == z3.And(tg, g), z3.If(tg, tk, 0), 0) for (tg, tk, _) in taken])
        bad_ret = z3.Or(*[z3.And(g, z3.Or(zint(v) != z3.Length(msg), z3.Sum([z3.If(tg, tk, 0) for (tg, tk, _) in taken]) != z3.Length(msg))) for (g, kind, v) in rets] + [z3.BoolVal(False)])
        allpos = z3.And(*[c >= 1 for c in counts])
        must_return = z3.And(nofault, allpos, z3.Not(z3.Or(*[g for (g, kind, v) in rets] + [z3.BoolVal(False)])))
        foreign = z3.Or(*[g for (g, kind, v) in results if kind == "raise" and not isinstance(v, CommError)] + [z3.BoolVal(False)])
        zero_not_error = z3.Or(*[z3.And(tg, tk == 0, given > 0, z3.Or(*[g for (g, kind, v) in rets] + [z3.BoolVal(False)])) for (tg, tk, given) in taken] + [z3.BoolVal(False)])
        spurious = []
        for name, cond in (("tiling", z3.And(nofault, z3.Or(*tiling_bad))), ("returns-all-bytes", z3.And(nofault, bad_ret)), ("terminates", must_return), ("only-CommError", foreign),
                           ("zero-bytes-accepted-means-CommError", zero_not_error)):
            s = z3.Solver()
            s.add(env_ok, *I.assumptions, cond)
            v, secs = B.check(s, 300000)
            queries += 1
            solver_s += secs
            if v == "sat":
                m = s.model()
                mb = _seq_bytes(m, msg)
                cn = [m.eval(c, model_completion=True).as_long() for c in counts]
                fa = [i for i, f in enumerate(faults) if z3.is_true(m.eval(f, model_completion=True))]
                rp = run(replay={"msg": list(mb), "counts": cn, "fault_at": fa[0] if fa else None})
                if not rp["reproduced"]:
                    # the model does not replay: the loop has a shape this query's slice/send pairing does not describe; the other queries
                    # (which do not depend on that pairing) still decide, and the verdict can then be at best inconclusive
                    spurious.append(name)
                    continue
                return {"status": "refuted", "cex": {"msg": list(mb), "counts": cn, "fault_at": fa[0] if fa else None}, "reproduced": True,
                        "queries": queries, "detail": f"send {name} fails: {rp.get('native')}"}
            if v != "unsat":
                return {"status": "inconclusive", "why": f"z3 {v} on {name}", "queries": queries}
        if spurious:
            return {"status": "inconclusive", "why": f"queries {spurious} returned models that do not replay on the real send (loop shape outside the encoding)", "queries": queries}
        s2 = z3.Solver()
        s2.add(env_ok, *I.assumptions, z3.Length(msg) >= 3, counts[0] == 1, z3.Or(*[g for (g, kind, _) in results if kind == "return"]))
        queries += 1
        return {"status": "confirmed", "queries": queries, "solver_s": round(solver_s, 2), "wall_s": round(time.time() - t0, 2),
                "nonvacuous": str(s2.check()) == "sat", "detail": f"K={K} send calls"}
    return run


REG.add("B/send/K4", _send_ob(4), engine="B", twin=False, timeout=900, funcs=F[1:], desc="message = z3 sequence of symbolic length; each send accepts a symbolic count 0..len or raises; <= 4 calls")
REG.add("B/send/K6", _send_ob(6), engine="B", twin=False, timeout=3000, tier="thorough", funcs=F[1:], desc="<= 6 send calls")


# ------------------------------------------------------------------ Engine A complement: concrete small frames, symbolic cuts and content
def _mk_cut(total_body):
    def h(c1: int, c2: int, body: bytes) -> str:
        frame = b"\x70\x00" + bytes([total_body, 0]) + b"\x01\x02\x03\x04" + bytes(16) + body
        n = len(frame)
        chunks = [frame[:c1], frame[c1:c2], frame[c2:]]
        chunks = [c for c in chunks if len(c)]
        r = native_receive(chunks)
        return "ok" if r[0] == "return" and r[1] == frame and r[2] == len(chunks) else "bad:" + str(r[0])
    return h


for tb in (0, 2, 6):
    REG.add(f"A/two-cuts/body{tb}", _mk_cut(tb), pre=lambda c1, c2, body, tb=tb: 0 <= c1 <= c2 <= 24 + tb and len(body) == tb, timeout=900, tier="quick" if tb == 2 else "thorough",
            desc=f"{24 + tb}-byte frame with symbolic body cut at two symbolic positions (all positions enumerated by realisation)", funcs=F[:1], weight=2)


def one_byte_chunks(body: bytes) -> str:
    frame = b"\x6f\x00\x02\x00" + bytes(20) + body
    r = native_receive([frame[i:i + 1] for i in range(len(frame))])
    return "ok" if r[0] == "return" and r[1] == frame and r[2] == len(frame) else "bad:" + str(r[0])


REG.add("A/one-byte-chunks", one_byte_chunks, pre=lambda body: len(body) == 2, desc="26-byte frame delivered one byte per recv, body symbolic", funcs=F[:1])


def peer_closes(k: int, body: bytes) -> str:
    frame = b"\x6f\x00\x04\x00" + bytes(20) + body
    r = native_receive([frame[:k]])
    return "ok" if r[0] == "raise" and r[1] == "CommError" else "bad:" + str(r)


REG.add("A/peer-closes-after-k-bytes", peer_closes, pre=lambda k, body: 0 <= k < 28 and len(body) == 4, timeout=300,
        desc="peer closes after k bytes of a 28-byte frame, k symbolic 0..27", funcs=F[:1])
