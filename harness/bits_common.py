"""Bit-string kernels (BitArrayType._encode/_decode, dword_to_bool_array) via Engine B.

Engine A forks once per bit (2^n paths); here the real source is interpreted with path
merging and the LSB-first specification is one z3 validity query per kernel (decode: one
query per bit-length class of the host integer, the case split of the bin() model).
Stubs: host_type._encode(v) = little-endian byte extraction with range side condition;
host_type.decode(stream) = an arbitrary host integer in range (the host integer codecs
themselves are Engine A obligations of C07)."""
import time
import z3
import pycomm3.cip.data_types as dt
from pycomm3.exceptions import DataError
from vlib import bvsym as B

TYPES = ["BYTE", "WORD", "DWORD", "LWORD", "ENGUNIT"]


def _probe_patterns(n):
    return [[0] * n, [1] * n, [0] * (n - 1) + [1], [1] + [0] * (n - 1), [i % 2 for i in range(n)], [(i + 1) % 2 for i in range(n)]]


def _encode_ob(Tname):
    def run(replay=None):
        T = getattr(dt, Tname)
        n = T.size * 8
        if replay is not None:
            bools = [bool(x) for x in replay["bits"]]
            try:
                enc = T.encode(bools)
                want = bytes(sum((1 << j) for j in range(8) if bools[8 * k + j]) for k in range(T.size))
                return {"reproduced": enc != want}
            except Exception:
                return {"reproduced": True}
        # translator validation: the host-codec stub below assumes an UNSIGNED little-endian host of T.size bytes;
        # push boundary patterns through the real function first (a signed or wrong-width host fails here)
        for pat in _probe_patterns(n):
            rp = run(replay={"bits": pat})
            if rp["reproduced"]:
                return {"status": "refuted", "cex": {"bits": pat}, "reproduced": True, "queries": 0,
                        "detail": f"{Tname}.encode of boundary pattern {pat} is not the LSB-first image (host type {T.host_type.__name__})"}
        bits = [z3.Bool(f"b{i}") for i in range(n)]
        I = B.BVInterp()

        def host_encode(interp, guard, out, env, v):
            # host codec contract from the REFERENCE table via the host type's CIP code: width and signedness
            from vlib.ref.codec import CIP_TYPES
            hn, hk = CIP_TYPES.get(T.host_type.code, (T.size, "u"))
            vz = interp.zi(v)
            limit = (1 << (8 * hn - 1)) if hk == "s" else (1 << (8 * hn))
            oor = z3.UGE(vz, z3.BitVecVal(limit, B.W))
            out.add(z3.And(guard, oor), "raise", DataError("range"))
            interp.pending.append(oor)
            return [B.SInt(z3.Extract(8 * i + 7, 8 * i, vz)) for i in range(hn)]

        I.stubs[T.host_type._encode.__func__] = host_encode
        t0 = time.time()
        try:
            out = I.run(getattr(dt.BitArrayType, '_real_encode', None) or dt.BitArrayType._encode.__func__, [T, [B.SBool(b) for b in bits]], glb=dict(vars(dt)))
        except B.EngineUnsupported as e:
            return {"status": "inconclusive", "why": f"source left Engine B's subset: {e}"}
        s = z3.Solver()
        conds = []
        for (g, kind, v) in out.items:
            if kind == "return" and isinstance(v, list) and len(v) == T.size:
                ok = z3.And(*[(z3.Extract(i % 8, i % 8, v[i // 8].e) == 1) == bits[i] for i in range(n)])
                conds.append(z3.And(g, ok))
        s.add(z3.Not(z3.Or(*conds)) if conds else z3.BoolVal(True))
        verdict, secs = B.check(s)
        res = {"queries": 1, "solver_s": round(secs, 3), "wall_s": round(time.time() - t0, 3)}
        if verdict == "unsat":
            # non-vacuity: some outcome returns
            s2 = z3.Solver()
            s2.add(z3.Or(*[g for (g, k, _) in out.items if k == "return"]))
            res["queries"] += 1
            res["nonvacuous"] = str(s2.check()) == "sat"
            xc = B.cross_check_z3_binary(s, "unsat")
            if xc:
                return dict(res, status="inconclusive", why=xc)
            return dict(res, status="confirmed")
        if verdict == "sat":
            m = s.model()
            bl = [bool(z3.is_true(m.eval(b, model_completion=True))) for b in bits]
            rp = run(replay={"bits": [int(x) for x in bl]})
            return dict(res, status="refuted", cex={"bits": [int(x) for x in bl]}, reproduced=rp["reproduced"],
                        detail=f"{Tname}.encode of {bl} is not the LSB-first image")
        return dict(res, status="inconclusive", why="z3 " + verdict)
    return run


def _decode_ob(Tname):
    def run(replay=None):
        T = getattr(dt, Tname)
        n = T.size * 8
        if replay is not None:
            v = int(replay["host"])
            try:
                got = T.decode(v.to_bytes(T.size, "little"))
                want = [bool((v >> i) & 1) for i in range(n)]
                return {"reproduced": got != want}
            except Exception:
                return {"reproduced": True}
        t0 = time.time()
        q = 0
        solver_s = 0.0
        for pat in _probe_patterns(n):
            hv = sum(1 << i for i in range(n) if pat[i])
            if run(replay={"host": hv})["reproduced"]:
                return {"status": "refuted", "cex": {"host": hv}, "reproduced": True, "queries": 0,
                        "detail": f"{Tname}.decode of host value {hv:#x} is not its LSB-first bit list (host type {T.host_type.__name__})"}
        for L in range(0, n + 1):
            v = z3.BitVec("v", B.W)
            I = B.BVInterp()

            def host_decode(interp, guard, out, env, stream):
                return B.SInt(v)

            def bin_model(interp, guard, out, env, val, L=L):
                digits = [B.SBool(z3.Extract(i, i, interp.zi(val)) == 1) for i in reversed(range(max(L, 1)))]
                return ["0", "b"] + [("1", d) for d in digits]

            I.stubs[T.host_type.decode.__func__] = host_decode
            I.stubs[bin] = bin_model
            orig_compare = I.compare

            def compare(op, a, b, orig_compare=orig_compare):
                import ast as A
                if isinstance(a, tuple) and len(a) == 2 and a[0] == "1" and b == "1" and isinstance(op, A.Eq):
                    return a[1]
                if isinstance(a, str) and isinstance(b, str):
                    return orig_compare(op, a, b)
                return orig_compare(op, a, b)

            I.compare = compare
            try:
                out = I.run(getattr(dt.BitArrayType, '_real_decode', None) or dt.BitArrayType._decode.__func__, [T, object()], glb=dict(vars(dt)))
            except B.EngineUnsupported as e:
                return {"status": "inconclusive", "why": f"source left Engine B's subset: {e}"}
            s = z3.Solver()
            if L == 0:
                s.add(v == 0)
            else:
                s.add(z3.ULT(v, z3.BitVecVal(1 << L, B.W)), z3.UGE(v, z3.BitVecVal(1 << (L - 1), B.W)))
            conds = []
            for (g, kind, val) in out.items:
                if kind == "return" and isinstance(val, list) and len(val) == n:
                    ok = z3.And(*[B.zbool(val[i]) == (z3.Extract(i, i, v) == 1) for i in range(n)])
                    conds.append(z3.And(g, ok))
            s.add(z3.Not(z3.Or(*conds)) if conds else z3.BoolVal(True))
            verdict, secs = B.check(s)
            q += 1
            solver_s += secs
            if verdict == "sat":
                hv = s.model().eval(v, model_completion=True).as_long()
                rp = run(replay={"host": hv})
                return {"status": "refuted", "cex": {"host": hv}, "reproduced": rp["reproduced"], "queries": q,
                        "solver_s": round(solver_s, 3), "detail": f"{Tname}.decode of host value {hv:#x} is not its LSB-first bit list"}
            if verdict != "unsat":
                return {"status": "inconclusive", "why": f"z3 {verdict} at bit length {L}", "queries": q}
        return {"status": "confirmed", "queries": q, "solver_s": round(solver_s, 3), "wall_s": round(time.time() - t0, 3), "nonvacuous": True}
    return run


def _dword_to_bool_array_ob():
    import pycomm3.packets.util as pu

    def run(replay=None):
        if replay is not None:
            v = int(replay["host"])
            try:
                return {"reproduced": pu.dword_to_bool_array(v) != [bool((v >> i) & 1) for i in range(32)]}
            except Exception:
                return {"reproduced": True}
        q, solver_s = 0, 0.0
        for L in range(0, 33):
            v = z3.BitVec("v", B.W)
            I = B.BVInterp()

            def bin_model(interp, guard, out, env, val, L=L):
                digits = [B.SBool(z3.Extract(i, i, interp.zi(val)) == 1) for i in reversed(range(max(L, 1)))]
                return ["0", "b"] + [("1", d) for d in digits]
            I.stubs[bin] = bin_model
            I.stubs[isinstance] = lambda interp, guard, out, env, obj, cls: False if cls is bytes else isinstance(obj, cls)
            orig_compare = I.compare

            def compare(op, a, b, orig_compare=orig_compare):
                import ast as A
                if isinstance(a, tuple) and len(a) == 2 and a[0] == "1" and b == "1" and isinstance(op, A.Eq):
                    return a[1]
                return orig_compare(op, a, b)
            I.compare = compare
            try:
                out = I.run(pu.dword_to_bool_array, [B.SInt(v)], glb=dict(vars(pu)))
            except B.EngineUnsupported as e:
                return {"status": "inconclusive", "why": f"source left Engine B's subset: {e}"}
            s = z3.Solver()
            if L == 0:
                s.add(v == 0)
            else:
                s.add(z3.ULT(v, z3.BitVecVal(1 << L, B.W)), z3.UGE(v, z3.BitVecVal(1 << (L - 1), B.W)))
            conds = []
            for (g, kind, val) in out.items:
                if kind == "return" and isinstance(val, list) and len(val) == 32:
                    conds.append(z3.And(g, *[B.zbool(val[i]) == (z3.Extract(i, i, v) == 1) for i in range(32)]))
            s.add(z3.Not(z3.Or(*conds)) if conds else z3.BoolVal(True))
            verdict, secs = B.check(s)
            q += 1
            solver_s += secs
            if verdict == "sat":
                hv = s.model().eval(v, model_completion=True).as_long()
                return {"status": "refuted", "cex": {"host": hv}, "reproduced": run(replay={"host": hv})["reproduced"], "queries": q,
                        "detail": f"dword_to_bool_array({hv:#x}) is not its LSB-first bit list"}
            if verdict != "unsat":
                return {"status": "inconclusive", "why": f"z3 {verdict} at bit length {L}", "queries": q}
        return {"status": "confirmed", "queries": q, "solver_s": round(solver_s, 3), "nonvacuous": True}
    return run


def add_bitarray_obligations(REG, prop):
    for Tn in TYPES:
        REG.add(f"bits/encode/{Tn}", _encode_ob(Tn), engine="B", twin=False,
                desc=f"all 2^{getattr(dt, Tn).size * 8} bit lists; spec: byte k bit j == element 8k+j",
                funcs=["data_types.BitArrayType._encode"])
        REG.add(f"bits/decode/{Tn}", _decode_ob(Tn), engine="B", twin=False,
                desc=f"all 2^{getattr(dt, Tn).size * 8} host values, case split on bit length; spec: element i == bit i",
                funcs=["data_types.BitArrayType._decode"])
    REG.add("bits/dword_to_bool_array", _dword_to_bool_array_ob(), engine="B", twin=False,
            desc="all 2^32 values", funcs=["packets.util.dword_to_bool_array"])
