"""C16  Device identities decode faithfully."""
from vlib.ob import Registry
from vlib import scen, chplugin
from vlib.ref import eip
from vlib.sym import sym_and, hex_value, codepoints, mkstr, concrete
from vlib.tspec import vec_fn, vec_pre
from pycomm3.custom_types import ListIdentityObject, ModuleIdentityObject
from pycomm3.packets import ListIdentityRequestPacket, ListIdentityResponsePacket
from pycomm3.cip.status_info import _VENDORS, _PRODUCT_TYPES

REG = Registry("C16")
BOUNDS = {"quick": {"vendor id": "all of 0..65535, split into 16 key ranges across workers", "product type / code, revision, status, serial, IP, state": "symbolic over their full width",
                    "product name": "0..4 symbolic Latin-1 characters (8 in the thorough tier)"},
          "thorough": {"product name": "<= 8 characters"}}
OUTSIDE = ["product names longer than 8 characters", "discover()'s UDP socket handling (its reply parsing is the ListIdentity packet checked here)"]
TRUSTED = ["the vendor / product-type tables themselves are data (status_info._VENDORS, _PRODUCT_TYPES); the oracle reads the raw tables, not the merged lookup dicts"]
ASSUMPTIONS = []
F = ["custom_types.ListIdentityObject._decode", "custom_types.ModuleIdentityObject._decode", "custom_types.ModuleIdentityObject._encode", "custom_types.IPAddress._decode",
     "packets.ethernetip.ListIdentityResponsePacket._parse_reply", "cip_driver.CIPDriver._list_identity", "cip_driver.CIPDriver.list_identity", "cip_driver.CIPDriver.get_module_info",
     "logix_driver.LogixDriver.get_plc_info"]


def identity_bytes(v, pt, pc, maj, mnr, st0, st1, serial, name_cps):
    return eip.le(v, 2) + eip.le(pt, 2) + eip.le(pc, 2) + [maj, mnr, st0, st1] + eip.le(serial, 4) + [len(name_cps)] + list(name_cps)


def check_identity(d, v, pt, pc, maj, mnr, st0, st1, serial, name_cps):
    """-> 'ok' or the first differing field"""
    if d.get("vendor") != _VENDORS.get(v, "UNKNOWN"):
        return "vendor"
    if d.get("product_type") != _PRODUCT_TYPES.get(pt, "UNKNOWN"):
        return "product_type"
    if d.get("product_code") != pc:
        return "product_code"
    if d.get("revision") != {"major": maj, "minor": mnr}:
        return "revision"
    if list(d.get("status", b"")) != [st0, st1]:
        return "status"
    ser = d.get("serial")
    if not isinstance(ser, str) or len(ser) != 8:
        return "serial-format"
    okd, val = hex_value(ser)
    if not sym_and(okd, val == serial):
        return "serial"
    nm = d.get("product_name")
    if not isinstance(nm, str) or len(nm) != len(name_cps):
        return "name-length"
    got = codepoints(nm)
    ok = True
    for i in range(len(name_cps)):
        ok = sym_and(ok, got[i] == name_cps[i])
    return "ok" if ok else "name"


# ---- split by range preconditions (DESIGN 2.1 rule 6): one group of fields symbolic at a time
IDS = sorted(_VENDORS)


def _mk_vendor_known(lo, hi):
    ids = IDS[lo:hi]            # small per-obligation table (indexing the full 1463-entry list symbolically costs seconds per path)

    def h(k: int, c0: int) -> str:
        try:
            v = ids[concrete(k) - lo]     # the table index is enumerated by the engine: one path per vendor id of this range
            raw = bytes(identity_bytes(v, 14, 55, 20, 11, 0x30, 0x60, 0xC0FFEE, [c0]))
            d = ModuleIdentityObject.decode(raw)
            return check_identity(d, v, 14, 55, 20, 11, 0x30, 0x60, 0xC0FFEE, [c0])
        except Exception as e:
            return "exc:" + type(e).__name__ + ":" + str(e)[:60]
    return h


_n = len(IDS)
for k in range(16):
    lo, hi = (k * _n) // 16, ((k + 1) * _n) // 16
    REG.add(f"module-identity/vendor-known/{k}", _mk_vendor_known(lo, hi), pre=lambda k, c0, lo=lo, hi=hi: lo <= k < hi and 0 <= c0 < 256, timeout=900, weight=2, funcs=F,
            desc=f"every vendor id of the table, entries {lo}..{hi - 1} (symbolic table index, enumerated), one symbolic name character")


def vendor_unknown(v: int) -> str:
    try:
        raw = bytes(identity_bytes(v, 14, 55, 20, 11, 0x30, 0x60, 0xC0FFEE, [65]))
        d = ModuleIdentityObject.decode(raw)
        return "ok" if d.get("vendor") == "UNKNOWN" else "vendor"
    except Exception as e:
        return "exc:" + type(e).__name__ + ":" + str(e)[:60]


REG.add("module-identity/vendor-unknown/above-table", vendor_unknown, pre=lambda v: max(IDS) < v < 65536, timeout=900, funcs=F,
        desc=f"vendor id symbolic in ({max(IDS)}, 65535]: 'UNKNOWN'")


def _vendor_gaps(replay=None):
    gaps = [g for g in range(0, max(IDS) + 2) if g not in _VENDORS]
    bad = [g for g in gaps if ModuleIdentityObject.decode(bytes(identity_bytes(g, 14, 55, 20, 11, 0x30, 0x60, 1, [65])))["vendor"] != "UNKNOWN"]
    if replay is not None:
        return {"reproduced": bool(bad)}
    return {"status": "confirmed", "queries": 0, "detail": f"{len(gaps)} unassigned ids below the table maximum"} if not bad else \
        {"status": "refuted", "cex": {"vendor_id": bad[0]}, "reproduced": True, "detail": f"unassigned vendor id {bad[0]} not reported as UNKNOWN"}


REG.add("module-identity/vendor-unknown/gaps", _vendor_gaps, engine="N", twin=False, funcs=F, desc="every unassigned id below the table maximum (concrete enumeration)")


def fields(pt: int, pc: int, maj: int, mnr: int, st0: int, st1: int) -> str:
    try:
        raw = bytes(identity_bytes(1, pt, pc, maj, mnr, st0, st1, 0xC0FFEE, [65, 66]))
        d = ModuleIdentityObject.decode(raw + b"\x99")
        return check_identity(d, 1, pt, pc, maj, mnr, st0, st1, 0xC0FFEE, [65, 66])
    except Exception as e:
        return "exc:" + type(e).__name__ + ":" + str(e)[:60]


REG.add("module-identity/fields", fields, pre=lambda pt, pc, maj, mnr, st0, st1: 0 <= pt < 65536 and 0 <= pc < 65536 and all(0 <= x < 256 for x in (maj, mnr, st0, st1)),
        timeout=900, funcs=F, desc="product type (known and unknown ids), product code, revision and status bytes symbolic")


def serial_only(serial: int) -> str:
    try:
        raw = bytes(identity_bytes(1, 14, 55, 20, 11, 0x30, 0x60, serial, [65, 66]))
        return check_identity(ModuleIdentityObject.decode(raw), 1, 14, 55, 20, 11, 0x30, 0x60, serial, [65, 66])
    except Exception as e:
        return "exc:" + type(e).__name__ + ":" + str(e)[:60]


REG.add("module-identity/serial", serial_only, pre=lambda serial: 0 <= serial < 2**32, timeout=600, funcs=F, desc="serial symbolic over 32 bits: 8 lowercase hex digits")


def _mk_name(nlen):
    def body(xs):
        try:
            raw = bytes(identity_bytes(1, 14, 55, 20, 11, 0x30, 0x60, 0xC0FFEE, list(xs)))
            return check_identity(ModuleIdentityObject.decode(raw + b"\x99"), 1, 14, 55, 20, 11, 0x30, 0x60, 0xC0FFEE, list(xs))
        except Exception as e:
            return "exc:" + type(e).__name__ + ":" + str(e)[:60]
    return vec_fn(nlen, body), vec_pre(nlen, lambda xs: all(0 <= c < 256 for c in xs))


for nlen in (0, 1, 3, 4):
    fn, pre = _mk_name(nlen)
    REG.add(f"module-identity/name{nlen}", fn, pre=pre, timeout=600, funcs=F, desc=f"{nlen} symbolic Latin-1 name characters")
fn, pre = _mk_name(8)
REG.add("module-identity/name8", fn, pre=pre, timeout=1500, tier="thorough", funcs=F, desc="8 symbolic name characters")


def list_identity_packet(ip0: int, ip1: int, ip2: int, ip3: int, state: int, v: int, serial: int, c0: int, c1: int) -> str:
    try:
        body = (eip.le(1, 2) + [0x00, 0x02, 0xAF, 0x12] + [ip0, ip1, ip2, ip3] + [0] * 8 + identity_bytes(v, 14, 55, 20, 11, 0x30, 0x60, serial, [c0, c1]) + [state])
        item = eip.le(0x0C, 2) + eip.le(len(body), 2) + body
        raw = bytes(eip.reply_list_identity(item))
        resp = ListIdentityResponsePacket(ListIdentityRequestPacket(), raw)
        if not resp:
            return "falsy:" + str(resp.error)
        d = resp.identity
        r = check_identity(d, v, 14, 55, 20, 11, 0x30, 0x60, serial, [c0, c1])
        if r != "ok":
            return r
        if d.get("ip_address") != f"{ip0}.{ip1}.{ip2}.{ip3}":
            return "ip"
        if d.get("state") != state or d.get("encap_protocol_version") != 1:
            return "state"
        return "ok"
    except Exception as e:
        return "exc:" + type(e).__name__ + ":" + str(e)[:60]


REG.add("list-identity/packet", list_identity_packet,
        pre=lambda ip0, ip1, ip2, ip3, state, v, serial, c0, c1: all(0 <= x < 256 for x in (ip0, ip1, state, c0, c1)) and ip2 == 1 and ip3 == 10 and v == 1 and serial == 0xC0FFEE,
        timeout=900, funcs=F, weight=2, desc="ListIdentity reply as parsed by list_identity()/discover(): two IP octets, state and name characters symbolic")
def list_identity_unknown_vendor(k: int, c0: int) -> str:
    return list_identity_packet(10, 0, 0, 9, 3, [0, 6, max(IDS) + 1, 50000, 65535][concrete(k)], 0xC0FFEE, c0, 66)


REG.add("list-identity/packet/unknown-vendor", list_identity_unknown_vendor, pre=lambda k, c0: 0 <= k < 5 and 0 <= c0 < 256, timeout=600, funcs=F, weight=2,
        desc="ListIdentity reply with a vendor id outside the table (0, 6, table maximum + 1, 50000, 65535; symbolic choice) and a symbolic name character: 'UNKNOWN'")
REG.add("list-identity/packet/ip-low-octets", list_identity_packet,
        pre=lambda ip0, ip1, ip2, ip3, state, v, serial, c0, c1: ip0 == 10 and ip1 == 0 and 0 <= ip2 < 256 and 0 <= ip3 < 256 and state == 3 and c0 == 65 and c1 == 66 and v == 1 and 0 <= serial < 2**32,
        timeout=900, funcs=F, weight=2, desc="ListIdentity reply: the two low IP octets and the serial symbolic")


def list_identity_truncated(cut: int, c0: int) -> str:
    try:
        body = eip.le(1, 2) + [0x00, 0x02, 0xAF, 0x12, 10, 0, 0, 9] + [0] * 8 + identity_bytes(1, 14, 55, 20, 11, 0x30, 0x60, 77, [c0, 66]) + [3]
        item = eip.le(0x0C, 2) + eip.le(len(body), 2) + body
        raw = bytes(eip.reply_list_identity(item))
        resp = ListIdentityResponsePacket(ListIdentityRequestPacket(), raw[:cut])
        if resp:
            return "truncated-reply-accepted"
        return "ok" if resp.error else "no-error-text"
    except Exception as e:
        return "exc:" + type(e).__name__ + ":" + str(e)[:60]


REG.add("list-identity/truncated", list_identity_truncated, pre=lambda cut, c0: 0 <= cut < 24 + 2 + 4 + 18 + 17 + 1 and 0 <= c0 < 256, timeout=600, funcs=F,
        desc="every truncation point of a ListIdentity reply: falsy response with an error text, no exception")


def driver_level(v: int, maj: int, serial: int, c0: int, slot: int) -> str:
    try:
        from pycomm3 import LogixDriver
        target = scen.std_project()
        target.identity = dict(target.identity, vendor=v, major=maj, serial=serial, product_name=[c0, 0x37, 0x35, 0x36])
        d = scen.make_driver(target, path="10.0.0.1/bp/1")
        ident = d._list_identity()
        r = check_identity(ident, v, 14, 166, maj, 11, 0x60, 0x31, serial, [c0, 0x37, 0x35, 0x36])
        if r != "ok":
            return "list_identity:" + r
        if ident.get("ip_address") != "192.168.1.10" or ident.get("state") != 3:
            return "list_identity:ip/state"
        info = d.get_plc_info()
        r = check_identity(info, v, 14, 166, maj, 11, 0x60, 0x31, serial, [c0, 0x37, 0x35, 0x36])
        if r != "ok":
            return "get_plc_info:" + r
        mi = d.get_module_info(slot)
        r = check_identity(mi, v, 14, 166, maj, 11, 0x60, 0x31, serial, [c0, 0x37, 0x35, 0x36])
        if r != "ok":
            return "get_module_info:" + r
        if target.violations or d._sock.frame_errors:
            return "protocol"
        return "ok"
    except Exception as e:
        return "exc:" + type(e).__name__ + ":" + str(e)[:60]


REG.add("driver/list_identity+get_plc_info+get_module_info", driver_level,
        pre=lambda v, maj, serial, c0, slot: v == 1 and 1 <= maj < 256 and serial == 0xC0FFEE and 32 <= c0 < 256 and 0 <= slot < 256, timeout=900, funcs=F, weight=2,
        desc="the three API entry points against the reference controller: revision, one name character and the module slot symbolic")
REG.add("driver/list_identity+get_plc_info+get_module_info/serial", driver_level,
        pre=lambda v, maj, serial, c0, slot: v == 1 and maj == 20 and 0 <= serial < 2**32 and c0 == 65 and slot == 2, timeout=900, funcs=F, weight=2,
        desc="the three API entry points: serial symbolic over 32 bits")


def _roundtrip(replay=None):
    bad = []
    names = list(dict.fromkeys(list(_VENDORS.values())))
    for i, vn in enumerate(names[::37] + ["ODVA", "ABB, Inc.", "Littelfuse"]):
        for pt in list(_PRODUCT_TYPES.values())[:: 5]:
            d = {"vendor": vn, "product_type": pt, "product_code": 7 + i, "revision": {"major": 3, "minor": 9}, "status": b"\x12\x34",
                 "serial": f"{(i * 2654435761) % 2**32:08x}", "product_name": "Dev%d" % i}
            try:
                if ModuleIdentityObject.decode(ModuleIdentityObject.encode(d)) != d:
                    bad.append((vn, pt))
            except Exception as e:
                bad.append((vn, pt, repr(e)))
    if replay is not None:
        return {"reproduced": bool(bad)}
    return {"status": "confirmed", "queries": 0} if not bad else {"status": "refuted", "cex": {"first": str(bad[0])}, "reproduced": True, "detail": str(bad[:2])}


REG.add("module-identity/encode-decode-table-members", _roundtrip, engine="N", twin=False, funcs=F,
        desc="decode(encode(identity)) == identity for table members incl. the vendor names that occur under several ids (concrete enumeration)")
