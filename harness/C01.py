"""C01  Tag reads return exactly what the controller holds.

The real LogixDriver.read runs against the reference controller (vlib.ref.logix) whose memory
image is symbolic; the returned Tags are compared with the reference interpretation of that
memory (vlib.ref.values).  Tag definitions come from pycomm3's own upload run natively against
the same controller (C05 checks the upload itself)."""
from vlib.ob import Registry
from vlib.sym import concrete
from vlib import scen, chplugin
from vlib.ref import values as V
from vlib.ref import codec as R
from vlib.tspec import vec_fn, vec_pre

# request strings by table lookup: indexing with a symbolic int makes the engine enumerate it, so masks/bit numbers are concrete per path
BITREQ = {t: [f"{t}.{i}" for i in range(64)] for t in ("S1", "I1", "D1", "L1", "U1.a")}
REG = Registry("C01")
BOUNDS = {"quick": {"requests per call": "<= 4", "memory": "all bytes of the addressed tags symbolic", "indices": "symbolic inside the dimensions",
                    "fragments": "<= 4 per transfer", "connection size": "500 and 4000", "firmware": "rev 32 (instance ids), rev 20 (symbolic names), Micro800 (no multi-service)"},
          "thorough": {"requests per call": "<= 6", "fragments": "<= 6"}}
OUTSIDE = ["> 6 requests per call", "real firmware (the reference controller stands for it)", "float arithmetic (REAL/LREAL are compared by IEEE bit pattern)",
           "string LEN outside 0..capacity"]
TRUSTED = ["vlib.ref.logix reference controller", "vlib.ref.values reference interpretation of memory", "vlib.ref.eip strict frame parser",
           "BitArrayType summaries justified by the bits/* Engine B obligations in this run"]
ASSUMPTIONS = ["tag database uploaded by pycomm3's own get_tag_list from the reference controller (verified separately by C05)"]
F = ["logix_driver.LogixDriver.read", "logix_driver._parse_tag_request", "logix_driver._read_build_requests", "logix_driver._read_build_multi_requests",
     "logix_driver._read_build_single_request", "logix_driver._send_requests", "logix_driver._send_read_fragmented", "packets.util.parse_read_reply",
     "packets.logix.MultiServiceResponsePacket._parse_reply", "packets.logix.ReadTagResponsePacket", "custom_types.StructTag._decode",
     "custom_types.FixedSizeString._decode", "cip_driver.CIPDriver.send", "packets.base.RequestPacket.build_request"]

if chplugin.SYMBOLIC:
    chplugin.install_bitarray_summaries()

_T = scen.std_project()
TAGS, DTYPES, _INFO = scen.upload(_T)
TAGS20, DTYPES20, _ = scen.upload(scen.std_project(revision_major=20), rev=20)
SIZES = {s.name if s.program is None else f"Program:{s.program}.{s.name}": s.nbytes() for s in _T.symbols}
T1, OUTER, STR8, STRING = scen.std_templates()


def check_tag(tag, name, spec, mem):
    """spec: ('one', typ, off, bit) | ('list', typ, off, n) | ('intbit', typ, off, bitno) | ('bools', off, start, n|None) ; expected type string last"""
    if tag.tag != name:
        return "name:" + str(tag.tag)
    if tag.error is not None or tag.value is None or not tag:
        return "falsy:" + str(tag.error)
    kind = spec[0]
    want_type = spec[-1]
    if tag.type != want_type:
        return "type:" + str(tag.type)
    if kind == "one":
        r = V.same_value(spec[1], tag.value, mem, spec[2], spec[3])
        if r is None:
            return "ok"
        return "ok" if r else "value"
    if kind == "list":
        return "ok" if V.same_elements(spec[1], tag.value, mem, spec[2], spec[3]) else "value"
    if kind == "intbit":
        n = V.ATOMIC_SIZE[spec[1]]
        word = R.from_le(mem[spec[2]:spec[2] + n], spec[1] in V.SIGNED)   # same (signed) shape as the decoded value; floor division = arithmetic shift
        return "ok" if tag.value == ((word // (1 << spec[3])) % 2 == 1) and isinstance(tag.value, bool) else "value"
    if kind == "bools":
        off, start, n = spec[1], spec[2], spec[3]
        # phrased over the little-endian DWORD (same shape as the proved specification of BitArrayType._decode)
        bit = lambda i: (R.from_le(mem[off + 4 * (i // 32):off + 4 * (i // 32) + 4]) // (1 << (i % 32))) % 2 == 1
        if n is None:
            return "ok" if tag.value == bit(start) else "value"
        if not isinstance(tag.value, list) or len(tag.value) != n:
            return "len"
        for k in range(n):
            if tag.value[k] != bit(start + k):
                return "value"
        return "ok"
    return "spec?"


def add(id, symtags, nidx, build, idx_pre=None, cfg=None, tier="quick", timeout=120, desc="", weight=1.0, mem_pre=None):
    """symtags: tags whose whole memory is symbolic (in this order inside the bytes argument m)
       build(xs) -> list of (request string, tag holding the data, spec)"""
    cfg = cfg or {}
    total = sum(SIZES[t] for t in symtags)

    def body(xs, m):
        try:
            mem, p = {}, 0
            for t in symtags:
                mem[t.split(".")[-1] if t.startswith("Program:") else t] = list(m[p:p + SIZES[t]])
                p += SIZES[t]
            rev = cfg.get("rev", 32)
            target = scen.std_project(mem=mem, revision_major=rev, frag_cap=cfg.get("frag_cap"))
            tags = TAGS if rev >= 21 else TAGS20
            d = scen.make_driver(target, cs=cfg.get("cs", 4000), tags=tags, rev=rev, micro800=cfg.get("micro800", False))
            reqs = build(xs)
            res = d.read(*[r[0] for r in reqs])
            if len(reqs) == 1:
                if isinstance(res, list):
                    return "shape"
                res = [res]
            elif not isinstance(res, list) or len(res) != len(reqs):
                return "shape"
            for (rq, holder, spec), tag in zip(reqs, res):
                sym = target.find_symbol(holder.split(".")[-1], "Main" if holder.startswith("Program:") else None)
                name = rq.split("{")[0]
                v = check_tag(tag, name, spec, sym.mem)
                if v != "ok":
                    return f"{rq}:{v}"
            if target.violations:
                return "protocol:" + target.violations[0]
            if d._sock.frame_errors:
                return "frame:" + d._sock.frame_errors[0]
            if cfg.get("expect_fragments") and not any(e[1] == 0x52 for e in target.log):
                return "not-fragmented"
            if cfg.get("micro800") and any(e[1] == 0x0A for e in target.log):
                return "multi-service-on-micro800"
            return "ok"
        except Exception as e:
            return "exc:" + type(e).__name__ + ":" + str(e)[:80]

    fn = vec_fn(nidx, body, extra=(("m", bytes),))
    ip = idx_pre or (lambda xs: True)
    mp = mem_pre or (lambda m: True)
    pre = vec_pre(nidx, lambda xs, m: len(m) == total and ip(xs) and mp(m), extra=(("m", bytes),))
    REG.add(id, fn, pre=pre, tier=tier, timeout=timeout, weight=weight, funcs=F,
            desc=desc or f"memory of {symtags} symbolic ({total} bytes), {nidx} symbolic indices; cfg={cfg}")


A = {"D1": 0xC4, "I1": 0xC3, "S1": 0xC2, "L1": 0xC5, "R1": 0xCA, "LR1": 0xCB, "B1": 0xC1}
NAME = V.ATOMIC_NAME

# ---- atomic scalars (single-request path)
for t, code in A.items():
    add(f"atomic/{t}", [t], 0, lambda xs, t=t, code=code: [(t, t, ("one", code, 0, None, NAME[code]))])
# ---- multi-service demultiplexing, duplicates
add("multi/3-atomics", ["D1", "I1", "S1"], 0, lambda xs: [("D1", "D1", ("one", 0xC4, 0, None, "DINT")), ("I1", "I1", ("one", 0xC3, 0, None, "INT")),
                                                          ("S1", "S1", ("one", 0xC2, 0, None, "SINT"))])
add("multi/duplicates", ["D1", "R1"], 0, lambda xs: [("D1", "D1", ("one", 0xC4, 0, None, "DINT")), ("R1", "R1", ("one", 0xCA, 0, None, "REAL")),
                                                      ("D1", "D1", ("one", 0xC4, 0, None, "DINT")), ("R1", "R1", ("one", 0xCA, 0, None, "REAL"))])
add("multi/rev20-symbolic-names", ["D1", "L1"], 0, lambda xs: [("D1", "D1", ("one", 0xC4, 0, None, "DINT")), ("L1", "L1", ("one", 0xC5, 0, None, "LINT"))], cfg={"rev": 20})
add("multi/micro800", ["D1", "I1"], 0, lambda xs: [("D1", "D1", ("one", 0xC4, 0, None, "DINT")), ("I1", "I1", ("one", 0xC3, 0, None, "INT"))],
    cfg={"micro800": True, "rev": 12})
add("multi/cs500", ["D1", "DA"], 0, lambda xs: [("D1", "D1", ("one", 0xC4, 0, None, "DINT")), ("DA{4}", "DA", ("list", 0xC4, 0, 4, "DINT[4]"))], cfg={"cs": 500})

# ---- arrays
add("array/base-is-first-element", ["DA"], 0, lambda xs: [("DA", "DA", ("one", 0xC4, 0, None, "DINT"))])
add("array/DA[i]", ["DA"], 1, lambda xs: [(f"DA[{xs[0]}]", "DA", ("one", 0xC4, 4 * xs[0], None, "DINT"))], idx_pre=lambda xs: 0 <= xs[0] < 4)
add("array/DA{4}", ["DA"], 0, lambda xs: [("DA{4}", "DA", ("list", 0xC4, 0, 4, "DINT[4]"))])
add("array/DA[1]{2}", ["DA"], 0, lambda xs: [("DA[1]{2}", "DA", ("list", 0xC4, 4, 2, "DINT[2]"))])
add("array/I2[i,j]", ["I2"], 2, lambda xs: [(f"I2[{xs[0]},{xs[1]}]", "I2", ("one", 0xC3, 2 * (3 * xs[0] + xs[1]), None, "INT"))],
    idx_pre=lambda xs: 0 <= xs[0] < 2 and 0 <= xs[1] < 3)
add("array/S3[i,j,k]", ["S3"], 3, lambda xs: [(f"S3[{xs[0]},{xs[1]},{xs[2]}]", "S3", ("one", 0xC2, 4 * xs[0] + 2 * xs[1] + xs[2], None, "SINT"))],
    idx_pre=lambda xs: all(0 <= x < 2 for x in xs))
add("array/I2[0,1]{3}", ["I2"], 0, lambda xs: [("I2[0,1]{3}", "I2", ("list", 0xC3, 2, 3, "INT[3]"))])
add("array/mixed", ["DA", "I2"], 0, lambda xs: [("DA[3]", "DA", ("one", 0xC4, 12, None, "DINT")), ("I2[1,2]", "I2", ("one", 0xC3, 10, None, "INT")),
                                                 ("DA{2}", "DA", ("list", 0xC4, 0, 2, "DINT[2]"))])

# ---- bits of integers
for t, code, nb in (("S1", 0xC2, 8), ("I1", 0xC3, 16), ("D1", 0xC4, 32), ("L1", 0xC5, 64)):
    for lo in range(0, nb, 16):
        hi = min(nb, lo + 16)
        add(f"bit/{t}.b/{lo}-{hi - 1}", [t], 1, lambda xs, t=t, code=code: [(BITREQ[t][concrete(xs[0])], t, ("intbit", code, 0, xs[0], "BOOL"))],
            idx_pre=lambda xs, lo=lo, hi=hi: lo <= xs[0] < hi, timeout=240, desc=f"{t}: all memory values, bit number symbolic {lo}..{hi - 1}")
add("bit/DA[2].7+D1.0", ["DA", "D1"], 0, lambda xs: [("DA[2].7", "DA", ("intbit", 0xC4, 8, 7, "BOOL")), ("D1.0", "D1", ("intbit", 0xC4, 0, 0, "BOOL")),
                                                    ("D1.31", "D1", ("intbit", 0xC4, 0, 31, "BOOL"))])

# ---- BOOL arrays (DWORD storage)
add("boolarray/BA[i]", ["BA"], 1, lambda xs: [(f"BA[{xs[0]}]", "BA", ("bools", 0, xs[0], None, "BOOL"))], idx_pre=lambda xs: 0 <= xs[0] < 64, timeout=300)
add("boolarray/BA[5]{10}", ["BA"], 0, lambda xs: [("BA[5]{10}", "BA", ("bools", 0, 5, 10, "BOOL[10]"))])
add("boolarray/BA[30]{4}-crosses-dword", ["BA"], 0, lambda xs: [("BA[30]{4}", "BA", ("bools", 0, 30, 4, "BOOL[4]"))])
add("boolarray/BA{64}", ["BA"], 0, lambda xs: [("BA{64}", "BA", ("bools", 0, 0, 64, "BOOL[64]"))])
add("boolarray/BA[32]{32}", ["BA"], 0, lambda xs: [("BA[32]{32}", "BA", ("bools", 0, 32, 32, "BOOL[32]"))])

# ---- structures
add("struct/U1", ["U1"], 0, lambda xs: [("U1", "U1", ("one", T1, 0, None, "UDT1"))], timeout=240)
add("struct/U1-members", ["U1"], 0, lambda xs: [("U1.a", "U1", ("one", 0xC4, 0, None, "DINT")), ("U1.arr[1]", "U1", ("one", 0xC3, 8, None, "INT")),
                                                 ("U1.b1", "U1", ("one", 0xC1, 4, 1, "BOOL")), ("U1.r", "U1", ("one", 0xCA, 12, None, "REAL"))], timeout=240)
add("struct/UA[i]", ["UA"], 1, lambda xs: [(f"UA[{xs[0]}]", "UA", ("one", T1, 16 * xs[0], None, "UDT1"))], idx_pre=lambda xs: 0 <= xs[0] < 2, timeout=240)
add("struct/UA{2}", ["UA"], 0, lambda xs: [("UA{2}", "UA", ("list", T1, 0, 2, "UDT1[2]"))], timeout=240, mem_pre=lambda m: m[4] == 2,
    desc="UDT1[2]: all 32 bytes symbolic except the BOOL host byte of element 0 (each packed BOOL member doubles the paths)")
add("struct/UA{2}/all-symbolic", ["UA"], 0, lambda xs: [("UA{2}", "UA", ("list", T1, 0, 2, "UDT1[2]"))], timeout=1500, tier="thorough")
add("struct/UA[1].arr[0]+b0", ["UA"], 0, lambda xs: [("UA[1].arr[0]", "UA", ("one", 0xC3, 22, None, "INT")), ("UA[1].b0", "UA", ("one", 0xC1, 20, 0, "BOOL"))])
add("struct/O1-nested", ["O1"], 0, lambda xs: [("O1", "O1", ("one", OUTER, 0, None, "OUTER"))], timeout=240)
add("struct/O1.inner.r+O1.w", ["O1"], 0, lambda xs: [("O1.inner.r", "O1", ("one", 0xCA, 12, None, "REAL")), ("O1.w", "O1", ("one", 0xC3, 18, None, "INT")),
                                                      ("O1.inner", "O1", ("one", T1, 0, None, "UDT1"))], timeout=240)
add("struct/U1.arr{2}", ["U1"], 0, lambda xs: [("U1.arr{2}", "U1", ("list", 0xC3, 6, 2, "INT[2]"))])
add("struct/U1.a.bit", ["U1"], 1, lambda xs: [(BITREQ["U1.a"][concrete(xs[0])], "U1", ("intbit", 0xC4, 0, xs[0], "BOOL"))], idx_pre=lambda xs: 0 <= xs[0] < 32, timeout=240)

# ---- program-scoped tags
add("program/PD", ["Program:Main.PD"], 0, lambda xs: [("Program:Main.PD", "Program:Main.PD", ("one", 0xC4, 0, None, "DINT"))])
add("program/PU.a+controller", ["Program:Main.PU", "D1"], 0, lambda xs: [("Program:Main.PU.a", "Program:Main.PU", ("one", 0xC4, 0, None, "DINT")),
                                                                        ("D1", "D1", ("one", 0xC4, 0, None, "DINT")),
                                                                        ("Program:Main.PU", "Program:Main.PU", ("one", T1, 0, None, "UDT1"))], timeout=240)


# ---- strings: LEN in 0..capacity (low byte symbolic), characters symbolic
def add_string(tag, templ, cap, tier="quick"):
    def body(xs, m):
        try:
            ln = xs[0]
            mem = [ln, 0, 0, 0] + list(m)
            target = scen.std_project(mem={tag: mem})
            d = scen.make_driver(target, tags=TAGS)
            tg = d.read(tag)
            v = check_tag(tg, tag, ("one", templ, 0, None, templ.name), mem)
            if v != "ok":
                return v
            return "ok" if not target.violations and not d._sock.frame_errors else "protocol"
        except Exception as e:
            return "exc:" + type(e).__name__ + ":" + str(e)[:80]
    REG.add(f"string/{tag}", vec_fn(1, body, extra=(("m", bytes),)),
            pre=vec_pre(1, lambda xs, m: 0 <= xs[0] <= cap and len(m) == templ.size - 4, extra=(("m", bytes),)),
            desc=f"LEN symbolic 0..{cap} (enumerated by realisation), all {templ.size - 4} data/padding bytes symbolic", funcs=F, timeout=300, tier=tier)


add_string("ST", STR8, 8)
add_string("SS", STRING, 82, tier="thorough")
STR5, STR7 = scen.odd_string_templates()
add_string("S5", STR5, 5)
add_string("S7", STR7, 7)


def _string_array(l0: int, l1: int, l2: int, m: bytes) -> str:
    try:
        lens = [l0, l1, l2]
        mem = []
        for k in range(3):
            mem += [lens[k], 0, 0, 0] + list(m[8 * k:8 * k + 8])
        target = scen.std_project(mem={"S5A": mem})
        d = scen.make_driver(target, tags=TAGS)
        tg = d.read("S5A{3}", "S5A[1]")
        v = check_tag(tg[0], "S5A", ("list", STR5, 0, 3, "STR5[3]"), mem)
        if v != "ok":
            return v
        v = check_tag(tg[1], "S5A[1]", ("one", STR5, 12, None, "STR5"), mem)
        return v if v != "ok" or not target.violations else ("ok" if not target.violations else "protocol")
    except Exception as e:
        return "exc:" + type(e).__name__ + ":" + str(e)[:80]


REG.add("string/S5A{3}-array-of-odd-capacity-strings", _string_array, pre=lambda l0, l1, l2, m: all(0 <= x <= 5 for x in (l0, l1, l2)) and len(m) == 24,
        desc="STR5[3] (capacity 5, structure padded to 12 bytes): the three LEN values symbolic 0..5, all data bytes symbolic", funcs=F, timeout=400)


# ---- data larger than the connection: fragmented reads (target-chosen fragment capacity)
def add_big(id, n_elems, cs, frag_cap, nsym, tier="quick", timeout=240):
    """BIG DINT[n]: nsym symbolic DINTs placed at the start, around every fragment boundary and at the end; the rest concrete"""
    from vlib.ref.logix import Symbol

    def body(xs, m):
        try:
            total = 4 * n_elems
            mem = [(7 * i + 3) % 256 for i in range(total)]
            cap = frag_cap if frag_cap is not None else cs
            spots = sorted({0, total - 4} | {max(0, min(total - 4, ((k * cap) // 4) * 4 - 4)) for k in range(1, total // max(cap, 1) + 2)})[:nsym]
            for j, sp in enumerate(spots):
                for b in range(4):
                    mem[sp + b] = m[4 * j + b]
            target = scen.std_project(frag_cap=frag_cap)
            big = Symbol("BIG", 40, 0xC4, (n_elems,), mem=mem)
            target.symbols.append(big)
            tags = dict(TAGS)
            from pycomm3.cip.data_types import DINT, Array
            tags["BIG"] = dict(TAGS["DA"], tag_name="BIG", instance_id=40, dimensions=[n_elems, 0, 0], type_class=Array(n_elems, DINT))
            d = scen.make_driver(target, cs=cs, tags=tags)
            tg = d.read(f"BIG{{{n_elems}}}", "D1")
            v = check_tag(tg[0], "BIG", ("list", 0xC4, 0, n_elems, f"DINT[{n_elems}]"), big.mem)
            if v != "ok":
                return v
            if not tg[1]:
                return "second-request-lost"
            if target.violations:
                return "protocol:" + target.violations[0]
            offs = [eip_u32(e[3], 2) for e in target.log if e[1] == 0x52]
            if not offs:
                return "not-fragmented"
            return "ok"
        except Exception as e:
            return "exc:" + type(e).__name__ + ":" + str(e)[:80]

    REG.add(id, vec_fn(0, body, extra=(("m", bytes),)), pre=vec_pre(0, lambda xs, m: len(m) == 4 * nsym, extra=(("m", bytes),)), tier=tier, timeout=timeout,
            desc=f"DINT[{n_elems}] at connection size {cs}, target fragment capacity {frag_cap}; {nsym} symbolic DINTs at the fragment boundaries", funcs=F)


def eip_u32(bs, p):
    return bs[p] + 256 * bs[p + 1] + 65536 * bs[p + 2] + 16777216 * bs[p + 3]


add_big("fragmented/DINT[300]@500", 300, 500, None, 6)
add_big("fragmented/DINT[300]@500/target-cap-100", 300, 500, 400, 6)
add_big("fragmented/DINT[130]@500-just-over", 130, 500, None, 4)
add_big("fragmented/DINT[1100]@4000", 1100, 4000, None, 4, tier="thorough", timeout=900)
add_big("fragmented/DINT[300]@500/target-cap-odd", 300, 500, 250, 8, tier="thorough", timeout=900)


# ---- deeper shapes (added in the second pass): deeper shapes
add("struct/UA[i].arr[j]", ["UA"], 2, lambda xs: [(f"UA[{xs[0]}].arr[{xs[1]}]", "UA", ("one", 0xC3, 16 * xs[0] + 6 + 2 * xs[1], None, "INT"))],
    idx_pre=lambda xs: 0 <= xs[0] < 2 and 0 <= xs[1] < 2, tier="quick", timeout=600)
add("struct/O1.inner.arr[j]+O1.inner.b1", ["O1"], 1, lambda xs: [(f"O1.inner.arr[{xs[0]}]", "O1", ("one", 0xC3, 6 + 2 * xs[0], None, "INT")),
                                                                   ("O1.inner.b1", "O1", ("one", 0xC1, 4, 1, "BOOL")), ("O1.s", "O1", ("one", 0xC2, 16, None, "SINT"))],
    idx_pre=lambda xs: 0 <= xs[0] < 2, tier="quick", timeout=600)
add("multi/six-requests", ["D1", "I1", "DA", "U1"], 1, lambda xs: [("D1", "D1", ("one", 0xC4, 0, None, "DINT")), ("I1", "I1", ("one", 0xC3, 0, None, "INT")),
                                                                      (f"DA[{xs[0]}]", "DA", ("one", 0xC4, 4 * xs[0], None, "DINT")), ("U1.a", "U1", ("one", 0xC4, 0, None, "DINT")),
                                                                      ("DA{4}", "DA", ("list", 0xC4, 0, 4, "DINT[4]")), ("D1", "D1", ("one", 0xC4, 0, None, "DINT"))],
    idx_pre=lambda xs: 0 <= xs[0] < 4, tier="quick", timeout=900)


def add_big_struct(id, n_elems, cs, tier="quick", timeout=1500):
    """UDT1[n] larger than the connection: fragmented read of an array of structures; symbolic member bytes in the elements around each fragment boundary"""
    from vlib.ref.logix import Symbol

    def body(xs, m):
        try:
            total = 16 * n_elems
            mem = [0] * total
            for e in range(n_elems):
                mem[16 * e:16 * e + 16] = [(e + 1) % 256, 0, 0, 0, e % 4, 0, e % 256, 0, (2 * e) % 256, 0, 0, 0, 0, 0, 0x80, 0x3F]
            spots = sorted({0, n_elems - 1} | {min(n_elems - 1, (k * (cs - 8)) // 16 + dj) for k in range(1, total // (cs - 8) + 2) for dj in (-1, 0)})[:4]
            for j, sp in enumerate(spots):
                mem[16 * sp:16 * sp + 4] = list(m[8 * j:8 * j + 4])          # member a
                mem[16 * sp + 6:16 * sp + 10] = list(m[8 * j + 4:8 * j + 8])  # member arr
            target = scen.std_project()
            big = Symbol("BIGU", 44, T1, (n_elems,), mem=mem)
            target.symbols.append(big)
            tags = dict(TAGS)
            from pycomm3.cip.data_types import Array
            tags["BIGU"] = dict(TAGS["UA"], tag_name="BIGU", instance_id=44, dimensions=[n_elems, 0, 0], type_class=Array(n_elems, TAGS["U1"]["type_class"]))
            d = scen.make_driver(target, cs=cs, tags=tags)
            tg = d.read(f"BIGU{{{n_elems}}}")
            v = check_tag(tg, "BIGU", ("list", T1, 0, n_elems, f"UDT1[{n_elems}]"), big.mem)
            if v != "ok":
                return v
            if target.violations:
                return "protocol:" + target.violations[0]
            return "ok" if any(e[1] == 0x52 for e in target.log) else "not-fragmented"
        except Exception as e:
            return "exc:" + type(e).__name__ + ":" + str(e)[:80]

    REG.add(id, vec_fn(0, body, extra=(("m", bytes),)), pre=vec_pre(0, lambda xs, m: len(m) == 32, extra=(("m", bytes),)), tier=tier, timeout=timeout, funcs=F,
            desc=f"UDT1[{n_elems}] ({16 * n_elems} bytes) at connection size {cs}: fragmented read of an array of structures, members a and arr of 4 boundary elements symbolic")


add_big_struct("fragmented/UDT1[70]@500", 70, 500)

from harness import bits_common
bits_common.add_bitarray_obligations(REG, "C01")
