"""C06  Data-type codecs round-trip every value (Engine A, bit strings via Engine B)."""
from io import BytesIO
from vlib.ob import Registry
from vlib import tspec as S
from vlib.ref import codec as R
from vlib.sym import mkfloat, same_float
import pycomm3.cip.data_types as dt
import pycomm3.custom_types as ct
import pycomm3.cip.pccc as pccc
from pycomm3.exceptions import DataError, BufferEmptyError

REG = Registry("C06")
F = ["data_types.DataType.encode", "data_types.DataType.decode", "data_types._as_stream", "data_types.DataType._stream_read"]

BOUNDS = {
    "quick": {"strings": "<= 3 chars", "arrays": "<= 4 elements", "struct depth": 2, "members": "<= 4", "ints": "full width",
              "bit strings": "all 2^8..2^64 values (Engine B)"},
    "thorough": {"strings": "<= 5 chars", "arrays": "<= 8 elements", "struct depth": 3, "members": "<= 4", "ints": "full width",
                 "bit strings": "all 2^8..2^64 values (Engine B)"},
}
OUTSIDE = ["longer strings/arrays (uniform loops)", "the C conversion between IEEE bits and Python float (float tokens)",
           "STRINGN/STRING2 code points outside the stated ranges (utf-8 multi-byte, surrogate pairs)",
           "EPATH / CIPSegment decode (documented as not implemented)"]
ASSUMPTIONS = ["value domains are the documented ones: integers within the type's range, strings within the type's character width"]
TRUSTED = ["vlib.ref.codec (independent reference layout)", "float token model F32/F64"]

INT_TYPES = [T for T in (dt.SINT, dt.INT, dt.DINT, dt.LINT, dt.USINT, dt.UINT, dt.UDINT, dt.ULINT,
                         dt.STIME, dt.DATE, dt.TIME_OF_DAY, dt.FTIME, dt.LTIME, dt.ITIME, dt.TIME)]


def exc(e):
    return "exc:" + type(e).__name__


# ----------------------------------------------------------------------------- generic spec round trip
def add_spec_rt(spec, tier="quick", sfx_len=2, timeout=60):
    k = S.nvars(spec)
    T = S.pytype(spec)
    is_struct = spec[0] == "struct"

    def body(xs, sfx):
        try:
            v, _ = S.value(spec, xs)
            enc = T.encode(v)
            ref, _ = S.refbytes(spec, xs)
            if len(enc) != len(ref):
                return "len"
            s = BytesIO(bytes(enc) + sfx)
            d = T.decode(s)
            ok, _ = S.same(spec, d, xs)
            if not ok:
                return "value"
            if s.read() != sfx:
                return "suffix"
            if is_struct:
                pv, _ = S.value(spec, xs, positional=True)
                if T.encode(pv) != enc:
                    return "positional"
            return "ok"
        except Exception as e:
            return exc(e)

    fn = S.vec_fn(k, body, extra=(("sfx", bytes),))
    pre = S.vec_pre(k, lambda xs, sfx: S.domain(spec, xs)[0] and len(sfx) == sfx_len, extra=(("sfx", bytes),))
    REG.add("rt/" + S.describe(spec), fn, pre=pre, tier=tier, timeout=timeout,
            desc=f"{k} symbolic leaf values over their full domains + {sfx_len} symbolic trailing bytes",
            funcs=F + [f"{S.describe(spec)}._encode/_decode"])


for T in INT_TYPES:
    add_spec_rt(("int", T))
add_spec_rt(("bool",))
add_spec_rt(("real", 4))
add_spec_rt(("real", 8))
add_spec_rt(("bytes", 1))
add_spec_rt(("bytes", 3))

_s1 = ("struct", [("a", ("int", dt.UINT)), ("b", ("int", dt.SINT)), ("c", ("int", dt.DINT))])
_inner = ("struct", [("x", ("int", dt.INT)), ("y", ("int", dt.UDINT))])
_s2 = ("struct", [("n", ("int", dt.USINT)), ("inner", _inner), ("s", ("str", dt.SHORT_STRING, 2, 1))])
_s3 = ("struct", [("arr", ("array", ("int", dt.INT), 2)), ("f", ("bool",)), ("r", ("real", 4))])
for sp in (_s1, _s2, _s3,
           ("array", ("int", dt.INT), 3), ("array", ("int", dt.USINT), 4), ("array", _inner, 2),
           ("array", ("array", ("int", dt.INT), 2), 2), ("array", ("str", dt.SHORT_STRING, 1, 1), 2),
           ("array", ("bool",), 3), ("array", ("real", 4), 2), ("array", ("int", dt.ULINT), 2)):
    add_spec_rt(sp)
for n in (0, 1, 2, 3):
    for ST in (dt.SHORT_STRING, dt.STRING, dt.LOGIX_STRING):
        add_spec_rt(("str", ST, n, 1))
for n in (0, 1, 2):
    add_spec_rt(("str", dt.STRING2, n, 2))
# thorough: deeper / wider
_s4 = ("struct", [("h", ("int", dt.LINT)), ("in2", ("struct", [("i", _inner), ("t", ("str", dt.STRING, 1, 1))])), ("z", ("array", ("int", dt.UDINT), 2))])
for sp in (_s4, ("array", ("int", dt.LINT), 4), ("array", ("int", dt.SINT), 8), ("array", _s1, 2), ("array", ("array", ("array", ("int", dt.USINT), 2), 2), 2),
           ("str", dt.SHORT_STRING, 5, 1), ("str", dt.STRING, 5, 1), ("str", dt.LOGIX_STRING, 5, 1), ("str", dt.STRING2, 4, 2), ("bytes", 8)):
    add_spec_rt(sp, tier="thorough", timeout=240)


# ----------------------------------------------------------------------------- free symbolic str
def add_str(Tname, T, maxlen, tier="quick", hi=256):
    def h(s: str) -> str:
        try:
            enc = T.encode(s)
            return "ok" if T.decode(enc) == s and T.decode(BytesIO(enc + b"zz")) == s else "value"
        except Exception as e:
            return exc(e)
    REG.add(f"rtstr/{Tname}<= {maxlen}", h, pre=lambda s: len(s) <= maxlen and all(ord(c) < hi for c in s), tier=tier,
            desc=f"free symbolic str, len <= {maxlen}, code points < {hi}", funcs=[f"data_types.{Tname}._encode/_decode"],
            timeout=120 if tier == "quick" else 400)


for nm in ("SHORT_STRING", "STRING", "LOGIX_STRING"):
    add_str(nm, getattr(dt, nm), 3)
    add_str(nm, getattr(dt, nm), 5, tier="thorough")


# ----------------------------------------------------------------------------- arrays: truncation, derived, unbounded
def add_array_special(T, n, signed):
    name = T.__name__

    def trunc(a: int, b: int, c: int, d: int) -> str:
        try:
            A3 = T[3]
            return "ok" if A3.encode([a, b, c, d]) == A3.encode([a, b, c]) and A3.decode(A3.encode([a, b, c, d])) == [a, b, c] else "value"
        except Exception as e:
            return exc(e)
    dom = lambda *v: all(R.in_domain(x, n, signed) for x in v)
    REG.add(f"array-trunc/{name}[3]", trunc, pre=lambda a, b, c, d: dom(a, b, c, d), desc="4 symbolic elements into a 3-array",
            funcs=["data_types.Array.encode", "data_types.Array.decode"])

    for ln in (0, 1, 2, 3):
        for L, lw in ((dt.USINT, 1), (dt.UINT, 2)):
            def _mk_derived(ln, L):
                def derived(a: int, b: int, c: int, sfx: bytes) -> str:
                    try:
                        AL = T[L]
                        v = [a, b, c][:ln]
                        s = BytesIO(L.encode(len(v)) + AL.encode(v) + sfx)
                        d = AL.decode(s)
                        if d != v:
                            return "value"
                        return "ok" if s.read() == sfx else "suffix"
                    except Exception as e:
                        return exc(e)
                return derived
            derived = _mk_derived(ln, L)
            REG.add(f"array-derived/{name}[{L.__name__}]/len{ln}", derived, pre=lambda a, b, c, sfx: dom(a, b, c) and len(sfx) == 1,
                    desc=f"{ln} symbolic elements, length prefix {L.__name__}, 1 trailing byte",
                    funcs=["data_types.Array.encode", "data_types.Array.decode"])

    for ln in (0, 1, 2, 3):
        def _mk_unbounded(ln):
            def unbounded(a: int, b: int, c: int) -> str:
                try:
                    AN = T[None]
                    v = [a, b, c][:ln]
                    return "ok" if AN.decode(AN.encode(v)) == v else "value"
                except Exception as e:
                    return exc(e)
            return unbounded
        unbounded = _mk_unbounded(ln)
        REG.add(f"array-unbounded/{name}[None]/len{ln}", unbounded, pre=lambda a, b, c: dom(a, b, c),
                desc=f"{ln} symbolic elements", funcs=["data_types.Array._decode_all"])


add_array_special(dt.INT, 2, True)
add_array_special(dt.USINT, 1, False)
add_array_special(dt.UDINT, 4, False)


# ----------------------------------------------------------------------------- special elementary types
def dat(t: int, d: int, sfx: bytes) -> str:
    try:
        enc = dt.DATE_AND_TIME.encode(t, d)
        s = BytesIO(enc + sfx)
        if dt.DATE_AND_TIME.decode(s) != (t, d):
            return "value"
        return "ok" if s.read() == sfx and list(enc) == R.le(t, 4) + R.le(d, 2) else "layout"
    except Exception as e:
        return exc(e)


REG.add("rt/DATE_AND_TIME", dat, pre=lambda t, d, sfx: 0 <= t < 2**32 and 0 <= d < 2**16 and len(sfx) == 2,
        desc="time, date symbolic over full width", funcs=["data_types.DATE_AND_TIME.encode/_decode"])

for cs, hi, mx in ((1, 128, 3), (2, 0xD800, 2), (4, 0xD800, 2)):
    def _mk_stringn(cs):
        def stringn(s: str) -> str:
            try:
                enc = dt.STRINGN.encode(s, cs)
                st = BytesIO(enc + b"q")
                if dt.STRINGN.decode(st) != s:
                    return "value"
                return "ok" if st.read() == b"q" else "suffix"
            except Exception as e:
                return exc(e)
        return stringn
    stringn = _mk_stringn(cs)
    REG.add(f"rt/STRINGN/char{cs}", stringn, pre=lambda s, hi=hi, mx=mx: len(s) <= mx and all(ord(c) < hi for c in s),
            desc=f"free str len<={mx}, code points < {hi:#x}, char size {cs}", funcs=["data_types.STRINGN.encode/_decode"], timeout=120)


def stringi(a: int, b: int, cset: int) -> str:
    try:
        s1, s2 = chr(a), chr(b) + chr(a)
        enc = dt.STRINGI.encode((s1, dt.STRING, "eng", cset), (s2, dt.SHORT_STRING, "deu", 4))
        st = BytesIO(enc + b"q")
        out = dt.STRINGI.decode(st)
        if (list(out[0]), list(out[1]), list(out[2])) != ([s1, s2], ["eng", "deu"], [cset, 4]):
            return "value"
        return "ok" if st.read() == b"q" else "suffix"
    except Exception as e:
        return exc(e)


REG.add("rt/STRINGI", stringi, pre=lambda a, b, cset: 0 <= a < 256 and 0 <= b < 256 and 0 <= cset < 65536,
        desc="two strings with symbolic characters, symbolic char-set id", funcs=["data_types.STRINGI.encode/decode"])


def nbytes_all(b: bytes) -> str:
    try:
        T = type(dt.n_bytes(-1))
        return "ok" if T.decode(T.encode(b)) == b else "value"
    except Exception as e:
        return exc(e)


REG.add("rt/n_bytes(-1)", nbytes_all, pre=lambda b: 1 <= len(b) <= 4, desc="symbolic bytes len 1..4", funcs=["data_types.BytesDataType"])


# ----------------------------------------------------------------------------- custom types
def _mk_ipaddr_enc(p):
    def ipaddr_enc(x: int) -> str:
        try:
            o = [192, 168, 1, 77]
            o[p] = x
            s = f"{o[0]}.{o[1]}.{o[2]}.{o[3]}"
            enc = ct.IPAddress.encode(s)
            if list(enc) != o:
                return "layout"
            return "ok" if ct.IPAddress.decode(enc) == s else "value"
        except Exception as e:
            return exc(e)
    return ipaddr_enc


for _p in range(4):
    REG.add(f"rt/IPAddress/octet{_p}", _mk_ipaddr_enc(_p), pre=lambda x: 0 <= x < 256,
            desc=f"octet {_p} symbolic 0..255, the others concrete (the ipaddress string parser is too slow with 4 symbolic octets)",
            funcs=["custom_types.IPAddress._encode/_decode"], timeout=120)


def ipaddr_dec(a: int, b: int, c: int, d: int) -> str:
    try:
        return "ok" if ct.IPAddress.decode(bytes([a, b, c, d])) == f"{a}.{b}.{c}.{d}" else "value"
    except Exception as e:
        return exc(e)


REG.add("dec/IPAddress", ipaddr_dec, pre=lambda a, b, c, d: all(0 <= x < 256 for x in (a, b, c, d)),
        desc="4 symbolic octets decoded to dotted quad", funcs=["custom_types.IPAddress._decode"], timeout=600, tier="thorough")


def revision(a: int, b: int) -> str:
    try:
        enc = ct.Revision.encode({"major": a, "minor": b})
        return "ok" if ct.Revision.decode(enc) == {"major": a, "minor": b} and list(enc) == [a, b] and ct.Revision.encode([a, b]) == enc else "value"
    except Exception as e:
        return exc(e)


REG.add("rt/Revision", revision, pre=lambda a, b: 0 <= a < 256 and 0 <= b < 256, desc="major/minor symbolic", funcs=["custom_types.Revision"])


def sta(c: int, a1: int, s1: int, z1: int, z2: int, n: int, hdl: int) -> str:
    try:
        T = ct.StructTemplateAttributes
        v = {"count": c, "object_definition_size": {"attr_num": a1, "status": s1, "size": z1},
             "structure_size": {"attr_num": 5, "status": 0, "size": z2},
             "member_count": {"attr_num": 2, "status": 0, "count": n},
             "structure_handle": {"attr_num": 1, "status": 0, "handle": hdl}}
        return "ok" if T.decode(T.encode(v)) == v else "value"
    except Exception as e:
        return exc(e)


REG.add("rt/StructTemplateAttributes", sta,
        pre=lambda c, a1, s1, z1, z2, n, hdl: all(0 <= x < 65536 for x in (c, a1, s1, n, hdl)) and 0 <= z1 < 2**32 and 0 <= z2 < 2**32,
        desc="7 symbolic fields", funcs=["custom_types.StructTemplateAttributes"])

for cap in (1, 4, 82):
    for ln in range(0, min(cap, 3) + 1):
        def _mk_fss(cap, ln):
            def fss(a: int, b: int, c: int, sfx: bytes) -> str:
                try:
                    T = ct.FixedSizeString(cap)
                    s = "".join(chr(x) for x in (a, b, c)[:ln])
                    enc = T.encode(s)
                    if list(enc) != R.enc_fixed_string([a, b, c][:ln], cap):
                        return "layout"
                    st = BytesIO(enc + sfx)
                    if T.decode(st) != s:
                        return "value"
                    return "ok" if st.read() == sfx else "suffix"
                except Exception as e:
                    return exc(e)
            return fss
        fss = _mk_fss(cap, ln)
        REG.add(f"rt/FixedSizeString({cap})/len{ln}", fss, pre=lambda a, b, c, sfx: all(0 <= x < 256 for x in (a, b, c)) and len(sfx) == 1,
                desc=f"capacity {cap}, {ln} symbolic Latin-1 chars, 1 trailing byte", funcs=["custom_types.FixedSizeString._encode/_decode"])


def mk_structtag():
    # template: DINT a @0, hidden host SINT ZZZZZZZZZZh @4 with bits f0 (bit 0), f1 (bit 3), INT[2] arr @6, REAL r @12, size 16
    host = dt.SINT("ZZZZZZZZZZh")
    return ct.StructTag((dt.DINT("a"), 0), (host, 4), (dt.Array(2, dt.INT)("arr"), 6), (dt.REAL("r"), 12),
                        bit_members={"f0": (4, 0), "f1": (4, 3)}, private_members={"ZZZZZZZZZZh"}, struct_size=16)


def structtag(a: int, f0: bool, f1: bool, e0: int, e1: int, rb: int, sfx: bytes) -> str:
    try:
        T = mk_structtag()
        v = {"a": a, "f0": f0, "f1": f1, "arr": [e0, e1], "r": mkfloat(rb, 4)}
        enc = bytes(T.encode(v))
        ref = R.struct_image(16, [(0, R.le(a, 4)), (6, R.le(e0, 2) + R.le(e1, 2)), (12, R.le(rb, 4))], [(4, 0, f0), (4, 3, f1)])
        if list(enc) != ref:
            return "layout"
        st = BytesIO(enc + sfx)
        d = T.decode(st)
        if set(d) != {"a", "f0", "f1", "arr", "r"}:
            return "keys"
        if not (d["a"] == a and d["f0"] == f0 and d["f1"] == f1 and d["arr"] == [e0, e1] and same_float(d["r"], rb, 4)):
            return "value"
        return "ok" if st.read() == sfx else "suffix"
    except Exception as e:
        return exc(e)


REG.add("rt/StructTag", structtag,
        pre=lambda a, f0, f1, e0, e1, rb, sfx: -2**31 <= a < 2**31 and -2**15 <= e0 < 2**15 and -2**15 <= e1 < 2**15 and 0 <= rb < 2**32 and len(sfx) == 2,
        desc="members at template offsets, 2 packed BOOLs in a hidden host, all member values symbolic",
        funcs=["custom_types.StructTag._encode/_decode"], timeout=120)


# ----------------------------------------------------------------------------- PCCC element codecs
def pccc_ascii(a: int, b: int) -> str:
    try:
        s = chr(a) + chr(b)
        return "ok" if pccc.PCCC_ASCII.decode(pccc.PCCC_ASCII.encode(s)) == s else "value"
    except Exception as e:
        return exc(e)


REG.add("rt/PCCC_ASCII", pccc_ascii, pre=lambda a, b: 0 <= a < 256 and 0 <= b < 256, desc="2 symbolic chars", funcs=["pccc.PCCC_ASCII"])

for ln in (0, 2, 4):
    def _mk_pccc_string(ln):
        def pccc_string(a: int, b: int, c: int, d: int) -> str:
            try:
                s = "".join(chr(x) for x in (a, b, c, d)[:ln])
                return "ok" if pccc.PCCC_STRING.decode(pccc.PCCC_STRING.encode(s)) == s else "value"
            except Exception as e:
                return exc(e)
        return pccc_string
    pccc_string = _mk_pccc_string(ln)
    REG.add(f"rt/PCCC_STRING/len{ln}", pccc_string, pre=lambda a, b, c, d: all(0 <= x < 256 for x in (a, b, c, d)),
            desc=f"{ln} symbolic chars (even lengths: the SLC string element is word-swapped)", funcs=["pccc.PCCC_STRING"])


# ----------------------------------------------------------------------------- bit strings (Engine B) and arrays of them
from harness import bits_common
bits_common.add_bitarray_obligations(REG, "C06")


# ----------------------------------------------------------------------------- coverage of the exported type list
COVERED = {"DataType", "ElementaryDataType", "StringDataType", "BytesDataType", "BitArrayType", "DerivedDataType", "ArrayType",
           "StructType", "CIPSegment",  # abstract bases
           "EPATH", "PACKED_EPATH", "PADDED_EPATH", "PortSegment", "LogicalSegment", "NetworkSegment", "SymbolicSegment",
           "DataSegment", "ConstructedDataTypeSegment", "ElementaryDataTypeSegment",  # encode-only: C09
           "DataTypes",  # C19
           "ModuleIdentityObject", "ListIdentityObject",  # C16
           "BOOL", "REAL", "LREAL", "DATE_AND_TIME", "LOGIX_STRING", "STRING", "SHORT_STRING", "STRING2", "STRINGN", "STRINGI",
           "n_bytes", "Array", "Struct", "BYTE", "WORD", "DWORD", "LWORD", "ENGUNIT",
           "IPAddress", "Revision", "StructTemplateAttributes", "FixedSizeString", "StructTag"} | {T.__name__ for T in INT_TYPES}
UNCOVERED = sorted((set(dt.__all__) | set(ct.__all__)) - COVERED)


def coverage_check(replay=None):
    if UNCOVERED:
        return {"status": "inconclusive", "why": "exported types without a harness: " + ", ".join(UNCOVERED)}
    return {"status": "confirmed", "queries": 0, "detail": f"{len(COVERED)} exported names covered"}


REG.add("meta/export-coverage", coverage_check, engine="N", twin=False, desc="every name in data_types.__all__/custom_types.__all__ has a harness or is delegated")
