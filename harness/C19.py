"""C19  Code tables are total, bidirectional, case-insensitive lookups."""
import importlib, pkgutil
from vlib.ob import Registry
from vlib.sym import mkstr
import pycomm3
from pycomm3.map import EnumMap
import pycomm3.cip.data_types as dt
from pycomm3.cip import Services, SERVICE_STATUS, EXTEND_CODES
from pycomm3.packets.util import get_service_status, get_extended_status

REG = Registry("C19")
OUTSIDE = ["non-ASCII spellings of member names (the str.lower model is ASCII; member names are checked to be ASCII)"]
ASSUMPTIONS = ["tables are discovered by scanning every pycomm3 module for EnumMap subclasses on each run"]
TRUSTED = ["ASCII str.lower model", "dict method linear-scan model"]
F = ["map.MapMeta.__new__", "map.MapMeta.__getitem__", "map.MapMeta.get", "map.MapMeta.__contains__", "map._key"]


def discover():
    out = {}
    for m in pkgutil.walk_packages(pycomm3.__path__, "pycomm3."):
        mod = importlib.import_module(m.name)
        for k, v in vars(mod).items():
            if isinstance(v, type) and issubclass(v, EnumMap) and v is not EnumMap and v.__module__ == mod.__name__:
                out[v.__module__.replace("pycomm3.", "") + "." + v.__name__] = v
    return out


TABLES = discover()
QUICK = {"cip.services.Services", "cip.data_types.DataTypes", "cip.services.EncapsulationCommands", "cip.services.ConnectionManagerServices",
         "cip.pccc.PCCCDataTypes", "packets.ethernetip.DataItem", "packets.ethernetip.AddressItem", "cip.object_library.ConnectionManagerInstances"}
BOUNDS = {"quick": {"tables": sorted(QUICK), "casings": "all 2^len letter-casings of every member name (symbolic mask)"},
          "thorough": {"tables": sorted(TABLES), "casings": "all 2^len letter-casings of every member name (symbolic mask)"}}


def members(M):
    # declared members straight from the class body (independent of MapMeta's own bookkeeping)
    return [(k, v) for k, v in vars(M).items() if not k.startswith("_") and not isinstance(v, (classmethod, staticmethod, property))]


def same(a, b):
    return a is b or a == b


def _mk_casing(M, mem):
    def h(k: int, m: int) -> str:
        try:
            name, val = mem[k]
            cps = []
            for i, ch in enumerate(name):
                c = ord(ch)
                if "a" <= ch <= "z":
                    cps.append(c - 32 * ((m // (1 << i)) % 2))
                elif "A" <= ch <= "Z":
                    cps.append(c + 32 * ((m // (1 << i)) % 2))
                else:
                    cps.append(c)
            s = mkstr(cps)
            if not same(M[s], val):
                return "getitem"
            if not same(M.get(s), val):
                return "get"
            if not (s in M):
                return "contains"
            return "ok"
        except Exception as e:
            return "exc:" + type(e).__name__
    return h


for tname, M in sorted(TABLES.items()):
    mem = members(M)
    tier = "quick" if tname in QUICK else "thorough"
    CH = 12
    for c0 in range(0, len(mem), CH):
        chunk = mem[c0:c0 + CH]
        maxlen = max(len(n) for n, _ in chunk)
        REG.add(f"casing/{tname}/{c0}", _mk_casing(M, chunk), pre=lambda k, m, n=len(chunk), L=maxlen: 0 <= k < n and 0 <= m < (1 << L),
                tier=tier, timeout=240, desc=f"members {c0}..{c0 + len(chunk) - 1}: member index (enumerated by realisation) x symbolic casing mask over all 2^len casings",
                funcs=F)


def _mk_reverse(tname, M):
    def run(replay=None):
        bad = []
        mem = members(M)
        caps = bool(vars(M).get("_return_caps_only_"))
        keyf = vars(M).get("_value_key_", lambda v: v)
        if isinstance(keyf, staticmethod):
            keyf = keyf.__func__
        bidir = vars(M).get("_bidirectional_", True)
        for name, val in mem:
            if not all(ord(c) < 128 for c in name):
                bad.append(f"non-ASCII member name {name!r}")
            if M[name] is not val and M[name] != val:
                bad.append(f"{name}: item access")
            if not bidir:
                continue
            code = keyf(val)
            for how, got in (("[]", M[code]), ("get", M.get(code))):
                if not isinstance(got, str):
                    bad.append(f"{name}: reverse {how} of {code!r} gives {got!r}")
                    continue
                if caps and got != got.upper():
                    bad.append(f"{name}: caps-only table returned {got!r}")
                owner = [v for n, v in mem if n.lower() == got.lower()]
                if not owner or keyf(owner[0]) != code:
                    bad.append(f"{name}: reverse {how} of {code!r} gives {got!r} which does not carry that code")
            if code not in M:
                bad.append(f"{name}: code {code!r} not reported as member")
        if "missing_member_xyz" in M or M.get("missing_member_xyz") is not None or M.get("missing_member_xyz", 7) != 7:
            bad.append("unknown name reported as member")
        if replay is not None:
            return {"reproduced": bool(bad)}
        if bad:
            return {"status": "refuted", "cex": {"table": tname, "first": bad[0]}, "reproduced": True, "detail": f"{tname}: {bad[:3]}"}
        return {"status": "confirmed", "queries": 0, "detail": f"{len(mem)} members"}
    return run


for tname, M in sorted(TABLES.items()):
    REG.add(f"reverse/{tname}", _mk_reverse(tname, M), engine="N", twin=False,
            desc="every member: name -> value, code -> a name carrying that code (item access and get), membership; concrete enumeration", funcs=F)


def _get_type(replay=None):
    bad = []
    for name, T in members(dt.DataTypes):
        code = T.code
        got = dt.DataTypes.get_type(code)
        if got is None or got.code != code:
            bad.append(f"get_type({code:#x}) -> {got!r}")
    if dt.DataTypes.get_type(0x1234) is not None:
        bad.append("get_type of an unknown code is not None")
    if replay is not None:
        return {"reproduced": bool(bad)}
    return {"status": "confirmed", "queries": 0} if not bad else {"status": "refuted", "cex": {"first": bad[0]}, "reproduced": True, "detail": str(bad[:3])}


REG.add("get_type/all-codes", _get_type, engine="N", twin=False, desc="every data-type code resolves to a type carrying it", funcs=["data_types.DataTypes.get_type"])


def get_type_sym(code: int) -> str:
    try:
        T = dt.DataTypes.get_type(code)
        if T is None:
            return "ok" if all(code != t.code for _, t in members(dt.DataTypes)) else "missing"
        return "ok" if T.code == code else "wrong"
    except Exception as e:
        return "exc:" + type(e).__name__


REG.add("get_type/symbolic-code", get_type_sym, pre=lambda code: 0 <= code < 256, desc="type code symbolic 0..255: a type carrying it or None", funcs=["data_types.DataTypes.get_type"], timeout=120)


# ------------------------------------------------------------- status texts
def status_text(st: int) -> str:
    try:
        t = get_service_status(st)
        if not isinstance(t, str) or len(t) == 0:
            return "empty"
        if st in SERVICE_STATUS:
            return "ok" if t == SERVICE_STATUS[st] else "wrong"
        hx = "0123456789abcdef"
        return "ok" if (hx[st // 16] + hx[st % 16]) in t else "nohex"
    except Exception as e:
        return "exc:" + type(e).__name__


REG.add("status/general", status_text, pre=lambda st: 0 <= st < 256, desc="status byte symbolic 0..255", funcs=["packets.util.get_service_status"], timeout=120)


def _ext_pairs(replay=None):
    bad = []
    n = 0
    for st, tbl in EXTEND_CODES.items():
        for ext, text in tbl.items():
            n += 1
            size = 1 if ext < 65536 else 2
            msg = bytes([st, size]) + ext.to_bytes(2 * size, "little")
            got = get_extended_status(msg, 0)
            if not got or text not in got:
                bad.append(f"({st:#x}, {ext:#x}) -> {got!r}")
    if replay is not None:
        return {"reproduced": bool(bad)}
    return {"status": "confirmed", "queries": 0, "detail": f"{n} pairs"} if not bad else {"status": "refuted", "cex": {"first": bad[0]}, "reproduced": True, "detail": str(bad[:3])}


REG.add("status/extended-pairs", _ext_pairs, engine="N", twin=False, desc="every (status, extended status) pair of EXTEND_CODES resolves to its text",
        funcs=["packets.util.get_extended_status"])


def from_reply(b: int) -> str:
    try:
        got = Services.from_reply(bytes([b]))
        want = [n for n, v in members(Services) if v == bytes([b - 128])]
        if not want:
            return "ok" if got is None else "invented"
        return "ok" if got in want else "wrong"
    except Exception as e:
        return "exc:" + type(e).__name__


REG.add("services/from_reply", from_reply, pre=lambda b: 128 <= b < 256, desc="reply service byte symbolic 0x80..0xFF", funcs=["services.Services.from_reply"], timeout=120)
