"""C15  Connection-path strings parse to the documented route (grammar templates with symbolic pieces)."""
from vlib.ob import Registry
from vlib.sym import mkstr
from vlib.ref import epath as E
from pycomm3.cip_driver import parse_connection_path, parse_cip_route, CIPDriver
from pycomm3.cip.data_types import PADDED_EPATH
from pycomm3.exceptions import RequestError, DataError

REG = Registry("C15")
BOUNDS = {"quick": {"hops": "0-3", "separators": "each a symbolic choice of / \\ ,", "ports": "every alias (one obligation each), numbers 1..14 symbolic",
                    "links": "slot symbolic 0..300, dotted quad with one symbolic octet", "tcp port": "symbolic 0..70000"},
          "thorough": {"hops": "0-4"}}
OUTSIDE = ["free-form strings beyond the grammar templates and single-character edits of port aliases", "port numbers 0 and >= 15 (not documented)",
           "host names are passed through unvalidated (resolved by the socket layer)"]
TRUSTED = ["vlib.ref.epath port-segment encoder", "documented alias table (README/docs): backplane|bp=1, enet|dnet|cnet|dhrio-a|dh485-a=2, dhrio-b|dh485-b=3"]
ASSUMPTIONS = ["route bytes = PADDED_EPATH.encode(route, length=True, pad_length=True), the form generic_message and Forward Open build from it"]
F = ["cip_driver.parse_connection_path", "cip_driver.parse_cip_route", "data_types.PortSegment._encode", "data_types.EPATH.encode"]
ALIASES = {"backplane": 1, "bp": 1, "enet": 2, "dhrio-a": 2, "dhrio-b": 3, "dnet": 2, "cnet": 2, "dh485-a": 2, "dh485-b": 3}
SEPS = (47, 92, 44)


def route_bytes(path, auto_slot=False):
    """('ok', ip, port, bytes) | ('RequestError',) | ('DataError',) | ('exc:..',)"""
    try:
        ip, port, segs = parse_connection_path(path, auto_slot)
    except RequestError:
        return ("RequestError",)
    except Exception as e:
        return ("exc:" + type(e).__name__,)
    try:
        return ("ok", ip, port, list(PADDED_EPATH.encode(segs, length=True, pad_length=True)))
    except DataError:
        return ("DataError",)
    except Exception as e:
        return ("exc:" + type(e).__name__,)


def ref_route(hops):
    """hops: [(port number, [link bytes])]"""
    return E.enc_path([E.enc_port(p, l) for p, l in hops], pad_len=True)


# -------------------------------------------------------------- one hop: alias x separators x slot
def _mk_one_hop(alias, num):
    def h(s1: int, s2: int, slot: int) -> str:
        r = route_bytes("10.0.0.1" + mkstr([s1]) + alias + mkstr([s2]) + str(slot))
        if slot > 255:
            return "ok" if r[0] == "DataError" else "accepted:" + r[0]
        if r[0] != "ok":
            return r[0]
        return "ok" if r[1] == "10.0.0.1" and r[2] is None and r[3] == ref_route([(num, [slot])]) else "mismatch"
    return h


for alias, num in ALIASES.items():
    REG.add(f"hop1/{alias}", _mk_one_hop(alias, num), pre=lambda s1, s2, slot: s1 in SEPS and s2 in SEPS and 0 <= slot <= 300,
            desc="2 symbolic separators, slot symbolic 0..300 (256..300 must be rejected at encode)", funcs=F, timeout=120)


def hop1_number(p: int, slot: int, s1: int) -> str:
    r = route_bytes("192.168.1.5" + mkstr([s1]) + str(p) + "/" + str(slot))
    if r[0] != "ok":
        return r[0]
    return "ok" if r[3] == ref_route([(p, [slot])]) else "mismatch"


REG.add("hop1/number", hop1_number, pre=lambda p, slot, s1: 1 <= p <= 14 and 0 <= slot < 256 and s1 in SEPS, desc="port number 1..14, slot 0..255, separator symbolic", funcs=F, timeout=120)


# -------------------------------------------------------------- two / three hops with an IP link
def _mk_multi(pos, hops3):
    def h(s1: int, s2: int, s3: int, s4: int, slot: int, x: int, slot2: int) -> str:
        o = [10, 11, 12, 13]
        o[pos] = x
        ipl = f"{o[0]}.{o[1]}.{o[2]}.{o[3]}"
        path = "plc.example" + mkstr([s1]) + "backplane" + mkstr([s2]) + str(slot) + mkstr([s3]) + "enet" + mkstr([s4]) + ipl
        hops = [(1, [slot]), (2, [ord(c) for c in ipl])]
        if hops3:
            path = path + "/bp/" + str(slot2)
            hops.append((1, [slot2]))
        r = route_bytes(path)
        if r[0] != "ok":
            return r[0]
        return "ok" if r[1] == "plc.example" and r[3] == ref_route(hops) else "mismatch"
    return h


for pos in range(4):
    REG.add(f"hop2/ip-octet{pos}", _mk_multi(pos, False),
            pre=lambda s1, s2, s3, s4, slot, x, slot2, pos=pos: all(s in SEPS for s in (s1, s2, s3, s4)) and sum(1 for s in (s1, s2, s3, s4) if s != 47) <= 1 and (s1, s2, s3, s4)[pos] in SEPS and all(s == 47 for k, s in enumerate((s1, s2, s3, s4)) if k != pos) and 0 <= slot < 256 and 0 <= x < 256 and slot2 == 0,
            desc=f"bp/slot/enet/ip: separator {pos} symbolic (others '/'), slot and IP octet {pos} symbolic", funcs=F, timeout=400, weight=3)
REG.add("hop3/ip-octet3", _mk_multi(3, True),
        pre=lambda s1, s2, s3, s4, slot, x, slot2: s1 == 47 and s2 == 92 and s3 == 44 and s4 in SEPS and 0 <= slot < 256 and 0 <= x < 256 and 0 <= slot2 < 256,
        desc="three hops, mixed separators (one symbolic), slots and one IP octet symbolic", funcs=F, timeout=900, weight=3, tier="thorough")


def hop4(a: int, b: int, c: int, d: int) -> str:
    path = f"10.0.0.1/bp/{a}/2/{b}/backplane/{c}/dh485-b/{d}"
    r = route_bytes(path)
    if r[0] != "ok":
        return r[0]
    return "ok" if r[3] == ref_route([(1, [a]), (2, [b]), (1, [c]), (3, [d])]) else "mismatch"


REG.add("hop4/slots", hop4, pre=lambda a, b, c, d: all(0 <= x < 256 for x in (a, b, c, d)), desc="4 hops, 4 symbolic links", funcs=F, tier="thorough", timeout=900)


# -------------------------------------------------------------- spellings of the same route give identical bytes
def spellings(s1: int, s2: int, slot: int) -> str:
    a = route_bytes("10.0.0.1/bp/" + str(slot))
    b = route_bytes("10.0.0.1" + mkstr([s1]) + "backplane" + mkstr([s2]) + str(slot))
    c = route_bytes("10.0.0.1,1," + str(slot))
    d = route_bytes("10.0.0.1/" + str(slot), True)
    if a[0] != "ok":
        return a[0]
    return "ok" if a == b == c == d else "differ"


REG.add("spellings/bp", spellings, pre=lambda s1, s2, slot: s1 in SEPS and s2 in SEPS and 0 <= slot < 256,
        desc="bp | backplane | 1 | auto-slot shortcut with symbolic separators and slot", funcs=F, timeout=180)


# -------------------------------------------------------------- TCP port
def tcp_port(p: int, slot: int) -> str:
    r = route_bytes("10.0.0.1:" + str(p) + "/bp/" + str(slot))
    valid = 1 <= p <= 65534
    if not valid:
        return "ok" if r[0] == "RequestError" else "accepted:" + r[0]
    if r[0] != "ok":
        return r[0]
    return "ok" if r[1] == "10.0.0.1" and r[2] == p and r[3] == ref_route([(1, [slot])]) else "mismatch"


REG.add("tcp-port", tcp_port, pre=lambda p, slot: 0 <= p <= 70000 and 0 <= slot < 256, desc="TCP port symbolic 0..70000 (valid 1..65534), slot symbolic", funcs=F, timeout=180)


def tcp_port_bad(c: int) -> str:
    r = route_bytes("10.0.0.1:4" + mkstr([c]) + "818/bp/0")
    isdigit = 48 <= c <= 57
    if isdigit:
        return "ok" if r[0] == "ok" and r[2] == 40818 + 1000 * (c - 48) else "mismatch"
    return "ok" if r[0] == "RequestError" else "accepted:" + r[0]


REG.add("tcp-port/one-char", tcp_port_bad, pre=lambda c: 33 <= c < 127 and c not in SEPS and c != 58 and c != 95,
        desc="one symbolic printable character inside the port digits", funcs=F, timeout=180)


# -------------------------------------------------------------- shortcuts of the Logix / SLC drivers
def auto_slot(slot: int) -> str:
    r0 = route_bytes("10.0.0.1", True)
    r = route_bytes("10.0.0.1/" + str(slot), True)
    bare = route_bytes("10.0.0.1", False)
    if r0 != ("ok", "10.0.0.1", None, ref_route([(1, [0])])) or bare != ("ok", "10.0.0.1", None, [0, 0]):
        return "bare"
    if slot > 255:
        return "ok" if r[0] == "DataError" else "accepted:" + r[0]
    return "ok" if r == ("ok", "10.0.0.1", None, ref_route([(1, [slot])])) else "mismatch"


REG.add("auto-slot", auto_slot, pre=lambda slot: 0 <= slot <= 300, desc="bare address and address/slot shortcuts, slot symbolic 0..300", funcs=F, timeout=120)


def _drivers(replay=None):
    from pycomm3 import LogixDriver, SLCDriver
    bad = []
    for cls, want in ((LogixDriver, True), (SLCDriver, True), (CIPDriver, False)):
        if cls._auto_slot_cip_path is not want:
            bad.append(cls.__name__)
    d = LogixDriver("1.2.3.4/5", init_tags=False)
    if list(PADDED_EPATH.encode(d._cfg["cip_path"], length=True, pad_length=True)) != ref_route([(1, [5])]) or d._cfg["ip address"] != "1.2.3.4":
        bad.append("LogixDriver('1.2.3.4/5')")
    s = SLCDriver("1.2.3.4")
    if list(PADDED_EPATH.encode(s._cfg["cip_path"], length=True, pad_length=True)) != ref_route([(1, [0])]):
        bad.append("SLCDriver('1.2.3.4')")
    if replay is not None:
        return {"reproduced": bool(bad)}
    return {"status": "confirmed", "queries": 0} if not bad else {"status": "refuted", "cex": {"bad": bad}, "reproduced": True, "detail": str(bad)}


REG.add("drivers/auto-slot-flags", _drivers, engine="N", twin=False, desc="which drivers enable the shortcuts", funcs=["logix_driver.LogixDriver", "slc_driver.SLCDriver"])


# -------------------------------------------------------------- malformed
def odd_segments(s1: int, s2: int, slot: int) -> str:
    r = route_bytes("10.0.0.1/bp" + mkstr([s1]) + str(slot) + mkstr([s2]) + "enet")
    return "ok" if r[0] == "RequestError" else "accepted:" + r[0]


REG.add("malformed/odd-segments", odd_segments, pre=lambda s1, s2, slot: s1 in SEPS and s2 in SEPS and 0 <= slot < 256, desc="3 route segments", funcs=F, timeout=120)


def _mk_alias_edit(alias, pos):
    others = sorted(ALIASES)

    def h(c: int, slot: int) -> str:
        cps = [ord(x) for x in alias]
        cps[pos] = c
        name = mkstr(cps)
        r = route_bytes("10.0.0.1/" + name + "/" + str(slot))
        # the edited name may coincide with another documented alias
        for o in others:
            if len(o) == len(alias) and all((ord(o[i]) == cps[i]) for i in range(len(o))):
                return "ok" if r[0] == "ok" and r[3] == ref_route([(ALIASES[o], [slot])]) else "alias-mismatch"
        if r[0] in ("RequestError", "DataError"):
            return "ok"
        return "accepted:" + r[0]
    return h


for alias in ("bp", "enet", "backplane", "dnet", "dhrio-a"):
    for pos in range(len(alias)):
        REG.add(f"malformed/alias-edit/{alias}/{pos}", _mk_alias_edit(alias, pos),
                pre=lambda c, slot: 97 <= c <= 122 and 0 <= slot < 256,
                desc="one character of the alias replaced by a symbolic lower-case letter: rejected unless it spells another alias", funcs=F, timeout=120,
                tier="quick" if alias in ("bp", "enet", "dnet") else "thorough")


def two_colons(p: int) -> str:
    r = route_bytes("10.0.0.1:" + str(p) + ":7/bp/0")
    return "ok" if r[0] == "RequestError" else "accepted:" + r[0]


REG.add("malformed/two-colons", two_colons, pre=lambda p: 1 <= p < 65535, desc="two colons in the host part", funcs=F, timeout=120)


def bad_ip_link(x: int) -> str:
    r = route_bytes(f"10.0.0.1/enet/10.20.30.{x}")
    if x < 256:
        return "ok" if r[0] == "ok" else r[0]
    return "ok" if r[0] in ("DataError", "RequestError") else "accepted:" + r[0]


REG.add("malformed/ip-link-octet", bad_ip_link, pre=lambda x: 0 <= x <= 299, desc="last octet of an IP link symbolic 0..299 (>= 256 rejected)", funcs=F, timeout=300)
