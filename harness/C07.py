"""C07  Encodings are the CIP wire format: differential against vlib.ref.codec (independent)."""
from io import BytesIO
from vlib.ob import Registry
from vlib import tspec as S
from vlib.ref import codec as R
from vlib.sym import mkfloat, same_float, fbits
import pycomm3.cip.data_types as dt
import pycomm3.custom_types as ct
from harness.C06 import INT_TYPES, mk_structtag, exc

REG = Registry("C07")
BOUNDS = {"quick": {"ints/floats": "all values and all byte patterns of the type's width", "strings": "<= 3 chars (enc) / <= 2 symbolic chars (dec)",
                    "arrays/structs": "<= 4 leaves, depth 2", "type codes": "every code of the reference table 0xC1..0xDE"},
          "thorough": {"strings": "<= 5 chars", "arrays/structs": "<= 8 leaves, depth 3"}}
OUTSIDE = ["longer strings/arrays", "IEEE bits <-> Python float conversion done by C struct (float-token model; spot-checked natively in the stub self-test)"]
TRUSTED = ["vlib.ref.codec: width/signedness per CIP type code from CIP Vol 1 App. C-6.1, little-endian layout, LSB-first bit strings"]
ASSUMPTIONS = ["the reference codec is the oracle; it shares no code with pycomm3"]
F = ["data_types.ElementaryDataType._encode/_decode", "data_types.DataType.encode/decode"]


def add_enc(spec, tier="quick", timeout=60):
    k = S.nvars(spec)
    T = S.pytype(spec)
    L = S.wire_len(spec)

    def body(xs):
        try:
            v, _ = S.value(spec, xs)
            enc = list(T.encode(v))
            if len(enc) != L:
                return "len"
            ok, p, _ = S.refparse(spec, enc, xs)
            return "ok" if ok and p == L else "layout"
        except Exception as e:
            return exc(e)
    REG.add("enc/" + S.describe(spec), S.vec_fn(k, body), pre=S.vec_pre(k, lambda xs: S.domain(spec, xs)[0]), tier=tier, timeout=timeout,
            desc=f"{k} symbolic leaf values; encoding parsed by the reference layout", funcs=F)


def add_dec(spec, tier="quick", timeout=60):
    T = S.pytype(spec)
    L = S.wire_len(spec)

    def h(b: bytes) -> str:
        try:
            d = T.decode(b)
            ys, p = S.refvalues(spec, list(b))
            ok, _ = S.same(spec, d, ys)
            return "ok" if ok and p == L else "value"
        except Exception as e:
            return exc(e)
    REG.add("dec/" + S.describe(spec), h, pre=lambda b: len(b) == L, tier=tier, timeout=timeout,
            desc=f"all {L}-byte patterns; decoded value vs reference decode", funcs=F)


for T in INT_TYPES:
    add_enc(("int", T))
    add_dec(("int", T))
for sp in (("bool",), ("real", 4), ("real", 8), ("bytes", 3)):
    add_enc(sp)
    add_dec(sp)
_s1 = ("struct", [("a", ("int", dt.UINT)), ("b", ("int", dt.SINT)), ("c", ("int", dt.DINT))])
_inner = ("struct", [("x", ("int", dt.INT)), ("y", ("int", dt.UDINT))])
_s3 = ("struct", [("arr", ("array", ("int", dt.INT), 2)), ("f", ("bool",)), ("r", ("real", 4))])
for sp in (_s1, _s3, ("array", ("int", dt.INT), 3), ("array", _inner, 2), ("array", ("array", ("int", dt.USINT), 2), 2), ("array", ("real", 8), 2)):
    add_enc(sp)
    add_dec(sp)
for n in (0, 1, 2, 3):
    for ST in (dt.SHORT_STRING, dt.STRING, dt.LOGIX_STRING):
        add_enc(("str", ST, n, 1))
for n in (0, 1, 2):
    add_enc(("str", dt.STRING2, n, 2))
add_enc(("struct", [("n", ("int", dt.USINT)), ("inner", _inner), ("s", ("str", dt.SHORT_STRING, 2, 1))]))
for sp in (("array", ("int", dt.LINT), 4), ("array", ("int", dt.SINT), 8), ("array", _s1, 2), ("bytes", 8)):
    add_enc(sp, tier="thorough", timeout=240)
    add_dec(sp, tier="thorough", timeout=240)
for sp in (("str", dt.SHORT_STRING, 5, 1), ("str", dt.STRING, 5, 1), ("str", dt.LOGIX_STRING, 5, 1), ("str", dt.STRING2, 4, 2)):
    add_enc(sp, tier="thorough", timeout=240)


# strings: decode of a well-formed prefix + symbolic character bytes
def _mk_strdec(T, pw, cw, n):
    def h(b: bytes) -> str:
        try:
            d = T.decode(bytes(R.le(n, pw)) + b)
            if len(d) != n:
                return "len"
            for j in range(n):
                if ord(d[j]) != R.from_le(list(b[cw * j:cw * j + cw])):
                    return "char"
            return "ok"
        except Exception as e:
            return exc(e)
    return h


for T, pw, cw in ((dt.SHORT_STRING, 1, 1), (dt.STRING, 2, 1), (dt.LOGIX_STRING, 4, 1)):
    for n in (1, 2):
        REG.add(f"dec/{T.__name__}<{n}>", _mk_strdec(T, pw, cw, n), pre=lambda b, n=n, cw=cw: len(b) == n * cw,
                desc=f"length prefix {n}, {n} symbolic character bytes (all Latin-1 values)", funcs=["data_types.StringDataType._decode"])
for n in (1, 2):
    REG.add(f"dec/STRING2<{n}>", _mk_strdec(dt.STRING2, 2, 2, n),
            pre=lambda b, n=n: len(b) == 2 * n and all(not (0xD8 <= b[2 * j + 1] <= 0xDF) for j in range(n)),
            desc=f"{n} symbolic UTF-16 code units outside the surrogate range", funcs=["data_types.STRING2._decode"])


# type-code table: every CIP code of the reference table maps to a type of that width / signedness / layout
def _mk_code_int(code, n, signed):
    def h(v: int) -> str:
        try:
            T = dt.DataTypes.get_type(code)
            if T is None or T.code != code or T.size != n:
                return "table"
            enc = list(T.encode(v))
            if len(enc) != n or R.from_le(enc, signed) != v:
                return "layout"
            return "ok" if T.decode(bytes(enc)) == v else "value"
        except Exception as e:
            return exc(e)
    return h


def _mk_code_real(code, n):
    def h(bits: int) -> str:
        try:
            T = dt.DataTypes.get_type(code)
            if T is None or T.code != code or T.size != n:
                return "table"
            enc = list(T.encode(mkfloat(bits, n)))
            if len(enc) != n or R.from_le(enc) != bits:
                return "layout"
            return "ok"
        except Exception as e:
            return exc(e)
    return h


def _mk_code_bool(code):
    def h(b: int) -> str:
        try:
            T = dt.DataTypes.get_type(code)
            if T is None or T.code != code or T.size != 1:
                return "table"
            if T.encode(True) != b"\xff" or T.encode(False) != b"\x00":
                return "layout"
            return "ok" if T.decode(bytes([b])) == (b != 0) else "value"
        except Exception as e:
            return exc(e)
    return h


def _mk_code_bits(code, n):
    def run(replay=None):
        T = dt.DataTypes.get_type(code)
        good = T is not None and T.code == code and T.size == n and issubclass(T, dt.BitArrayType) and T.host_type.size == n
        if good:
            ones = [i % 3 == 0 for i in range(8 * n)]
            good = list(T.encode(ones)) == R.bits_lsb_first(ones) and T.decode(bytes(R.bits_lsb_first(ones))) == ones
        if replay is not None:
            return {"reproduced": not good}
        if good:
            return {"status": "confirmed", "queries": 0, "detail": "table entry + one concrete pattern; all patterns: bits/* obligations"}
        return {"status": "refuted", "cex": {"code": code}, "reproduced": True, "detail": f"type code {code:#x} does not map to a {n}-byte bit string"}
    return run


for code, (n, kind) in sorted(R.CIP_TYPES.items()):
    if kind in ("u", "s"):
        REG.add(f"code/{code:#04x}", _mk_code_int(code, n, kind == "s"), pre=lambda v, n=n, sg=(kind == "s"): R.in_domain(v, n, sg),
                desc=f"CIP code {code:#x}: {n}-byte {'signed' if kind == 's' else 'unsigned'} integer, value symbolic", funcs=["data_types.DataTypes.get_type"])
    elif kind == "f":
        REG.add(f"code/{code:#04x}", _mk_code_real(code, n), pre=lambda bits, n=n: 0 <= bits < (1 << (8 * n)),
                desc=f"CIP code {code:#x}: {n}-byte IEEE float, bit pattern symbolic", funcs=["data_types.DataTypes.get_type"])
    elif kind == "b":
        REG.add(f"code/{code:#04x}", _mk_code_bool(code), pre=lambda b: 0 <= b < 256, desc="BOOL 0x00/0xFF", funcs=["data_types.DataTypes.get_type", "data_types.BOOL"])
    else:
        REG.add(f"code/{code:#04x}", _mk_code_bits(code, n), engine="N", twin=False, desc=f"{n}-byte bit string table entry", funcs=["data_types.DataTypes.get_type"])


def _mk_code_str(code, pw, cw):
    def h(a: int, b: int) -> str:
        try:
            T = dt.DataTypes.get_type(code)
            if T is None or T.code != code:
                return "table"
            enc = list(T.encode(chr(a) + chr(b)))
            return "ok" if enc == R.enc_string([a, b], pw, cw) else "layout"
        except Exception as e:
            return exc(e)
    return h


for code, (pw, cw) in sorted(R.CIP_STRINGS.items()):
    hi = 256 if cw == 1 else 0xD800
    REG.add(f"code/{code:#04x}", _mk_code_str(code, pw, cw), pre=lambda a, b, hi=hi: 0 <= a < hi and 0 <= b < hi,
            desc=f"string code {code:#x}: {pw}-byte length prefix, {cw}-byte characters", funcs=["data_types.DataTypes.get_type"])


# Logix layouts
def _mk_fss(cap, ln):
    def fss(a: int, b: int, c: int) -> str:
        try:
            T = ct.FixedSizeString(cap)
            enc = list(T.encode("".join(chr(x) for x in (a, b, c)[:ln])))
            return "ok" if enc == R.enc_fixed_string([a, b, c][:ln], cap) else "layout"
        except Exception as e:
            return exc(e)
    return fss


for cap in (2, 82):
    for ln in (0, 1, 2):
        REG.add(f"layout/FixedSizeString({cap})/len{ln}", _mk_fss(cap, ln), pre=lambda a, b, c: all(0 <= x < 256 for x in (a, b, c)),
                desc=f"DINT length + characters + zero padding to capacity {cap}", funcs=["custom_types.FixedSizeString._encode"])


def structtag_enc(a: int, f0: bool, f1: bool, e0: int, e1: int, rb: int) -> str:
    try:
        T = mk_structtag()
        enc = list(bytes(T.encode({"a": a, "f0": f0, "f1": f1, "arr": [e0, e1], "r": mkfloat(rb, 4)})))
        if len(enc) != 16:
            return "len"
        ok = (R.from_le(enc[0:4], True) == a and enc[4] == (1 if f0 else 0) + (8 if f1 else 0) and enc[5] == 0 and
              R.from_le(enc[6:8], True) == e0 and R.from_le(enc[8:10], True) == e1 and enc[10] == 0 and enc[11] == 0 and R.from_le(enc[12:16]) == rb)
        return "ok" if ok else "layout"
    except Exception as e:
        return exc(e)


REG.add("layout/StructTag/encode", structtag_enc,
        pre=lambda a, f0, f1, e0, e1, rb: -2**31 <= a < 2**31 and -2**15 <= e0 < 2**15 and -2**15 <= e1 < 2**15 and 0 <= rb < 2**32,
        desc="members at template offsets 0/6/12, BOOL members in bits 0 and 3 of the hidden host byte at offset 4, gaps zero",
        funcs=["custom_types.StructTag._encode"], timeout=120)


def structtag_dec(b: bytes) -> str:
    try:
        T = mk_structtag()
        d = T.decode(b)
        bs = list(b)
        ok = (set(d) == {"a", "f0", "f1", "arr", "r"} and d["a"] == R.from_le(bs[0:4], True) and d["f0"] == (bs[4] % 2 == 1)
              and d["f1"] == ((bs[4] // 8) % 2 == 1) and d["arr"] == [R.from_le(bs[6:8], True), R.from_le(bs[8:10], True)]
              and same_float(d["r"], R.from_le(bs[12:16]), 4))
        return "ok" if ok else "value"
    except Exception as e:
        return exc(e)


REG.add("layout/StructTag/decode", structtag_dec, pre=lambda b: len(b) == 16, desc="all 16-byte images", funcs=["custom_types.StructTag._decode"], timeout=120)

from harness import bits_common
bits_common.add_bitarray_obligations(REG, "C07")
