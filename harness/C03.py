"""C03  One result per request, in request order, with failures isolated."""
from vlib.ob import Registry
from vlib.sym import concrete
from vlib import scen, chplugin
from vlib.ref import values as V
from vlib.ref import codec as R
from vlib.ref.values import band
from vlib.tspec import vec_fn, vec_pre
from harness.C01 import TAGS, SIZES, check_tag, T1
from pycomm3.tag import Tag

REG = Registry("C03")
BOUNDS = {"quick": {"requests per call": "1..3 (each slot a symbolic choice of 10 read / 11 write request kinds, first slot split over workers)", "memory": "D1, DA symbolic",
                    "controller configurations": "multi-service capable (default) and Micro800 (one request per packet; 2 requests per call over 5 read / 5 write kinds, 3 in the thorough tier)"},
          "thorough": {"requests per call": "1..4"}}
OUTSIDE = ["longer request lists", "request kinds outside the enumerated table"]
TRUSTED = ["vlib.ref.logix reference controller", "vlib.ref.values"]
ASSUMPTIONS = ["the outcome of a request issued alone is computed by the reference interpretation (value from memory / error class)"]
F = ["logix_driver.LogixDriver.read", "logix_driver.LogixDriver.write", "logix_driver._parse_requested_tags", "logix_driver._parse_tag_request",
     "logix_driver._send_requests", "logix_driver._read_build_multi_requests", "logix_driver._write_build_multi_requests", "logix_driver.encode_value", "tag.Tag.__bool__"]

if chplugin.SYMBOLIC:
    chplugin.install_bitarray_summaries()

# (request, holder, spec | None for 'must fail')
READS = [
    ("D1", "D1", ("one", 0xC4, 0, None, "DINT")),
    ("DA[1]{2}", "DA", ("list", 0xC4, 4, 2, "DINT[2]")),
    ("NOPE", None, None),
    ("U1.nomember", None, None),
    ("DA[9]", None, None),
    ("DA{9}", None, None),
    ("U1.b1", "U1", ("one", 0xC1, 4, 1, "BOOL")),
    ("D1.2", "D1", ("intbit", 0xC4, 0, 2, "BOOL")),
    ("NOPE[1].x{2}", None, None),
    ("DA[3]", "DA", ("one", 0xC4, 12, None, "DINT")),
]


def _mk_read(n, first, table=None, micro800=False):
    READS = table or globals()["READS"]

    def body(xs, m):
        try:
            mem = {"D1": list(m[0:4]), "DA": list(m[4:20])}
            target = scen.std_project(mem=mem)
            d = scen.make_driver(target, tags=TAGS, micro800=micro800, rev=12 if micro800 else None)
            ch = [READS[first]] + [READS[x] for x in xs]
            res = d.read(*[c[0] for c in ch])
            if n == 1:
                if isinstance(res, list):
                    return "shape"
                res = [res]
            elif not isinstance(res, list) or len(res) != n:
                return "shape"
            for c, tg in zip(ch, res):
                if not isinstance(tg, Tag):
                    return "not-a-Tag"
                if c[2] is None:
                    if tg or tg.value is not None or not tg.error:
                        return "invalid-request-not-falsy:" + c[0]
                    if tg.tag != c[0] and tg.tag != c[0].split("{")[0]:
                        return "name:" + c[0]
                else:
                    sym = target.find_symbol(c[1])
                    v = check_tag(tg, c[0].split("{")[0], c[2], sym.mem)
                    if v != "ok":
                        return c[0] + ":" + v
            if micro800 and any(e[1] == 0x0A for e in target.log):
                return "multi-service-on-micro800"
            return "ok"
        except Exception as e:
            return "exc:" + type(e).__name__ + ":" + str(e)[:80]
    return body


for n in (1, 2, 3):
    for first in range(len(READS)):
        REG.add(f"read/n{n}/first{first}", vec_fn(n - 1, _mk_read(n, first), extra=(("m", bytes),)),
                pre=vec_pre(n - 1, lambda xs, m: len(m) == 20 and all(0 <= x < len(READS) for x in xs), extra=(("m", bytes),)),
                tier="quick", timeout=600 if n >= 3 else 180, weight=n, funcs=F,
                desc=f"{n} requests: first = {READS[first][0]!r}, the others symbolic choices over {len(READS)} request kinds (valid and invalid, duplicates allowed); memory of D1/DA symbolic")


READS_M = [READS[0], READS[1], READS[2], READS[7], READS[5]]
for n in (2, 3):
    for first in range(len(READS_M)):
        REG.add(f"read-micro800/n{n}/first{first}", vec_fn(n - 1, _mk_read(n, first, READS_M, True), extra=(("m", bytes),)),
                pre=vec_pre(n - 1, lambda xs, m: len(m) == 20 and all(0 <= x < len(READS_M) for x in xs), extra=(("m", bytes),)),
                tier="quick" if n <= 2 else "thorough", timeout=600 if n >= 3 else 180, weight=n, funcs=F + ["logix_driver._read_build_single_request"],
                desc=f"Micro800 (no multi-service packets): {n} read requests, first = {READS_M[first][0]!r}, the others symbolic choices over {len(READS_M)} kinds (valid and invalid, duplicates allowed); memory symbolic")


def _mk_read4(first, second):
    inner = _mk_read(4, first)

    def body(xs, m):
        return inner([second] + list(xs), m)
    return body


for first in (0, 2, 4):
    for second in (0, 2, 4, 6):
        REG.add(f"read/n4/first{first}/second{second}", vec_fn(2, _mk_read4(first, second), extra=(("m", bytes),)),
                pre=vec_pre(2, lambda xs, m: len(m) == 20 and all(0 <= x < len(READS) for x in xs), extra=(("m", bytes),)), tier="thorough", timeout=900, weight=3, funcs=F,
                desc=f"4 requests: {READS[first][0]!r}, {READS[second][0]!r}, then two symbolic choices over {len(READS)} request kinds; memory of D1/DA symbolic")


# ---- writes: (request, value builder(v), holder, effect builder(v) | None = must fail and change nothing)
WRITES = [
    ("D1", lambda v: v, "D1", lambda v: [("int", 0, 4, True, v)]),
    ("DA[1]{2}", lambda v: [v, 7], "DA", lambda v: [("int", 4, 4, True, v), ("int", 8, 4, True, 7)]),
    ("NOPE", lambda v: v, None, None),
    ("D1", lambda v: 2 ** 40, None, None),
    ("DA{3}", lambda v: [v], None, None),
    ("BA[5]{32}", lambda v: [True] * 32, None, None),
    ("I1.3", lambda v: True, "I1", lambda v: [("bit", 0, 3, True)]),
    ("DA[9]", lambda v: v, None, None),
    ("I1", lambda v: "text", None, None),
    ("U1.nomember", lambda v: v, None, None),
    ("S1", lambda v: -5, "S1", lambda v: [("int", 0, 1, True, -5)]),
]


def _mk_write(n, first, table=None, micro800=False):
    from harness.C02 import expected_image
    WRITES = table or globals()["WRITES"]

    def body(xs, m):
        try:
            v = xs[0]
            mem = {"D1": list(m[0:4]), "DA": list(m[4:20]), "I1": list(m[20:22])}
            target = scen.std_project(mem=mem)
            old = {s.name: (s, list(s.mem)) for s in target.symbols}
            d = scen.make_driver(target, tags=TAGS, micro800=micro800, rev=12 if micro800 else None)
            idx = [first] + list(xs[1:])
            # a tag may be written by at most one valid request per call (which write wins is not part of the property)
            holders = [WRITES[i][2] for i in idx if WRITES[i][2]]
            if len(set(holders)) != len(holders):
                return "skip"
            ch = [WRITES[i] for i in idx]
            res = d.write(*[(c[0], c[1](v)) for c in ch])
            if n == 1:
                if isinstance(res, list):
                    return "shape"
                res = [res]
            elif not isinstance(res, list) or len(res) != n:
                return "shape"
            effects = {}
            for c, tg in zip(ch, res):
                if not isinstance(tg, Tag):
                    return "not-a-Tag"
                if tg.tag != c[0] and tg.tag != c[0].split("{")[0]:
                    return "name:" + c[0]
                if c[3] is None:
                    if tg or not tg.error:
                        return "invalid-request-not-falsy:" + c[0]
                else:
                    if not tg or tg.error is not None:
                        return "valid-request-failed:" + c[0] + ":" + str(tg.error)
                    effects.setdefault(c[2], []).extend(c[3](v))
            for name, (s, before) in old.items():
                if name not in effects and name not in mem:
                    if s.mem != before:
                        return "memory:" + name
                    continue
                if not expected_image(before, effects.get(name, []))(s.mem):
                    return "memory:" + name
            if micro800 and any(e[1] == 0x0A for e in target.log):
                return "multi-service-on-micro800"
            return "ok"
        except Exception as e:
            return "exc:" + type(e).__name__ + ":" + str(e)[:80]
    return body


# Micro800 configuration: no multi-service packets, every request (bit writes included) travels alone
WRITES_M = [
    ("I1.3", lambda v: True, "I1", lambda v: [("bit", 0, 3, True)]),
    ("D1.2", lambda v: False, "D1", lambda v: [("bit", 0, 2, False)]),
    ("S1", lambda v: -5, "S1", lambda v: [("int", 0, 1, True, -5)]),
    ("NOPE", lambda v: v, None, None),
    ("DA[1]{2}", lambda v: [v, 7], "DA", lambda v: [("int", 4, 4, True, v), ("int", 8, 4, True, 7)]),
]
for n in (2, 3):
    for first in range(len(WRITES_M)):
        REG.add(f"write-micro800/n{n}/first{first}", vec_fn(n, _mk_write(n, first, WRITES_M, True), extra=(("m", bytes),)),
                pre=vec_pre(n, lambda xs, m: len(m) == 22 and R.in_domain(xs[0], 4, True) and all(0 <= x < len(WRITES_M) for x in xs[1:]), extra=(("m", bytes),)),
                post=lambda r, **kw: r in ("ok", "skip"),
                tier="quick" if n <= 2 else "thorough", timeout=600 if n >= 3 else 240, weight=n, funcs=F + ["logix_driver._write_build_single_request"],
                desc=f"Micro800 (no multi-service packets): {n} write requests, first = {WRITES_M[first][0]!r}, the others symbolic choices over {len(WRITES_M)} kinds (two bit writes, a value write, an unknown tag, an array slice)")


for n in (1, 2, 3):
    for first in range(len(WRITES)):
        REG.add(f"write/n{n}/first{first}", vec_fn(n, _mk_write(n, first), extra=(("m", bytes),)),
                pre=vec_pre(n, lambda xs, m: len(m) == 22 and R.in_domain(xs[0], 4, True) and all(0 <= x < len(WRITES) for x in xs[1:]), extra=(("m", bytes),)),
                post=lambda r, **kw: r in ("ok", "skip"),
                tier="quick" if n <= 2 else "thorough", timeout=600 if n >= 3 else 240, weight=n, funcs=F,
                desc=f"{n} write requests: first = {WRITES[first][0]!r}, the others symbolic choices over {len(WRITES)} kinds; written value and prior memory symbolic; invalid requests must fail alone and change nothing")


# ---- Tag truthiness contract
def tag_bool(vk: int, ek: int, v: int) -> str:
    value = [None, 0, v, "", [], False][vk]
    error = [None, "", "boom"][ek]
    t = Tag("x", value, "DINT", error)
    return "ok" if bool(t) == (value is not None and error is None) else "truthiness"


REG.add("tag/bool", tag_bool, pre=lambda vk, ek, v: 0 <= vk < 6 and 0 <= ek < 3, desc="value kinds {None,0,int,'',[],False} x error kinds {None,'',text}", funcs=["tag.Tag.__bool__"])
