"""C09  Emitted CIP paths denote the addressed object: every emitted path is parsed by an
independent strict padded-EPATH parser back to the intended names and numbers."""
from vlib.ob import Registry
from vlib.ref import epath as E
import pycomm3.cip.data_types as dt
from pycomm3.packets.util import request_path, tag_request_path
from pycomm3.cip import ClassCode

REG = Registry("C09")
BOUNDS = {"quick": {"logical values": "all of 0..2^32-1 (symbolic)", "names": "ASCII, 1..6 chars symbolic (program-scope and member templates fixed)",
                    "indices": "0-3 per level, each all of 0..2^32-1", "ports": "every alias, numbers 1..14; links 0..255, numeric strings, dotted quads (one symbolic octet at a time)"},
          "thorough": {"names": "1..12 chars"}}
OUTSIDE = ["port numbers >= 15 (extended port identifier: not implemented or documented)", "names > 12 chars", "non-ASCII symbol names",
           "DataSegment with bytes data (simple data segment; not used by the drivers)"]
TRUSTED = ["vlib.ref.epath: logical format 00/01/10 = 8/16/32 bit with pad byte in padded paths, 0x91 ANSI extended symbol with pad, port segment with extended link size"]
ASSUMPTIONS = []
F = ["data_types.LogicalSegment._encode", "data_types.EPATH.encode", "data_types.DataSegment._encode", "data_types.PortSegment._encode",
     "packets.util.request_path", "packets.util.tag_request_path", "packets.util._find_tag_index"]


def exc(e):
    return "exc:" + type(e).__name__


def parse(bs, **kw):
    try:
        return E.parse_path(list(bs), **kw)
    except E.RefError as e:
        return ("reject:" + str(e), -1)


# ------------------------------------------------------------- logical segments
def _mk_logical(ltype, padded):
    def h(v: int) -> str:
        try:
            enc = list(dt.LogicalSegment.encode(dt.LogicalSegment(v, ltype), padded=padded))
            if padded and len(enc) % 2:
                return "odd"
            try:
                segs = E.parse_segments(enc, padded=padded)
            except E.RefError as e:
                return "reject:" + str(e)
            return "ok" if segs == [("logical", ltype, v)] and enc == E.enc_logical(ltype, v, padded) else "mismatch"
        except Exception as e:
            return exc(e)
    return h


for ltype in dt.LogicalSegment.logical_types:
    for padded in (True, False):
        REG.add(f"logical/{ltype}/{'padded' if padded else 'packed'}", _mk_logical(ltype, padded), pre=lambda v: 0 <= v < 2**32,
                desc="value symbolic over 0..2^32-1", funcs=F[:1])


def _mk_logical_bytes(ltype, w):
    def h(b: bytes) -> str:
        try:
            enc = list(dt.LogicalSegment.encode(dt.LogicalSegment(b, ltype), padded=True))
            try:
                segs = E.parse_segments(enc, padded=True)
            except E.RefError as e:
                return "reject:" + str(e)
            val = sum(b[i] * 256**i for i in range(w))
            return "ok" if segs == [("logical", ltype, val)] else "mismatch"
        except Exception as e:
            return exc(e)
    return h


for ltype in ("class_id", "instance_id", "attribute_id"):
    for w in (1, 2, 4):
        REG.add(f"logical-bytes/{ltype}/{w}", _mk_logical_bytes(ltype, w), pre=lambda b, w=w: len(b) == w,
                desc=f"value given as {w} symbolic bytes", funcs=F[:1])


# ------------------------------------------------------------- request_path(class, instance, attribute)
def rp_ints(c: int, i: int, a: int) -> str:
    try:
        enc = list(request_path(c, i, a))
        segs, used = parse(enc)
        if used != len(enc):
            return str(segs)
        want = [("logical", "class_id", c), ("logical", "instance_id", i)] + ([("logical", "attribute_id", a)] if a else [])
        return "ok" if segs == want else "mismatch"
    except Exception as e:
        return exc(e)


REG.add("request_path/ints", rp_ints, pre=lambda c, i, a: 0 <= c < 2**32 and 0 <= i < 2**32 and 0 <= a < 2**32,
        desc="class, instance, attribute symbolic over 0..2^32-1 (attribute 0 = omitted, as documented)", funcs=F, timeout=120)


def _mk_rp_bytes(wc, wi, wa):
    def h(c: bytes, i: bytes, a: bytes) -> str:
        try:
            enc = list(request_path(c, i, a))
            segs, used = parse(enc)
            if used != len(enc):
                return str(segs)
            val = lambda b: sum(b[k] * 256**k for k in range(len(b)))
            want = [("logical", "class_id", val(c)), ("logical", "instance_id", val(i))] + ([("logical", "attribute_id", val(a))] if wa else [])
            return "ok" if segs == want else "mismatch"
        except Exception as e:
            return exc(e)
    return h


for wc, wi, wa in ((1, 1, 0), (1, 1, 1), (2, 2, 2), (1, 4, 1), (2, 1, 0), (4, 4, 4)):
    REG.add(f"request_path/bytes/{wc}{wi}{wa}", _mk_rp_bytes(wc, wi, wa),
            pre=lambda c, i, a, wc=wc, wi=wi, wa=wa: len(c) == wc and len(i) == wi and len(a) == wa,
            desc=f"class/instance/attribute as {wc}/{wi}/{wa} symbolic bytes", funcs=F)


# ------------------------------------------------------------- EPATH.encode length / pad options
def _mk_epath_opts(length, pad_length, padded):
    def h(v: int, w: int) -> str:
        try:
            P = dt.PADDED_EPATH if padded else dt.PACKED_EPATH
            enc = list(P.encode([dt.LogicalSegment(v, "class_id"), dt.LogicalSegment(w, "instance_id")], length=length, pad_length=pad_length))
            body = E.enc_logical("class_id", v, padded) + E.enc_logical("instance_id", w, padded)
            if not length:
                return "ok" if enc == body else "mismatch"
            if enc[0] != len(body) // 2:
                return "wordcount"
            rest = enc[1:]
            if pad_length:
                if rest[0] != 0:
                    return "pad"
                rest = rest[1:]
            return "ok" if rest == body else "mismatch"
        except Exception as e:
            return exc(e)
    return h


for length in (False, True):
    for pad_length in (False, True):
        REG.add(f"epath-opts/padded/len{int(length)}pad{int(pad_length)}", _mk_epath_opts(length, pad_length, True),
                pre=lambda v, w: 0 <= v < 2**32 and 0 <= w < 2**32, desc="two logical segments, values symbolic", funcs=F[:2], timeout=120)
REG.add("epath-opts/packed/len0pad0", _mk_epath_opts(False, False, False), pre=lambda v, w: 0 <= v < 2**32 and 0 <= w < 2**32,
        desc="two logical segments, packed", funcs=F[:2], timeout=120)


# ------------------------------------------------------------- symbolic (ANSI extended) segments
def _mk_symbol(maxlen):
    def h(s: str) -> str:
        try:
            enc = list(dt.DataSegment.encode(dt.DataSegment(s), padded=True))
            try:
                segs = E.parse_segments(enc)
            except E.RefError as e:
                return "reject:" + str(e)
            return "ok" if segs == [("symbol", [ord(c) for c in s])] and len(enc) % 2 == 0 else "mismatch"
        except Exception as e:
            return exc(e)
    return h


REG.add("symbol/<=6", _mk_symbol(6), pre=lambda s: 1 <= len(s) <= 6 and all(32 < ord(c) < 127 for c in s), desc="free ASCII name 1..6 chars", funcs=F[2:3], timeout=120)
REG.add("symbol/<=12", _mk_symbol(12), pre=lambda s: 7 <= len(s) <= 12 and all(32 < ord(c) < 127 for c in s), desc="free ASCII name 7..12 chars",
        funcs=F[2:3], tier="thorough", timeout=600)


# ------------------------------------------------------------- port segments
def _mk_port(port, want_port):
    def h(link: int, as_str: bool) -> str:
        try:
            seg = dt.PortSegment(port, str(link) if as_str else link)
            enc = list(dt.PortSegment.encode(seg, padded=True))
            try:
                segs = E.parse_segments(enc)
            except E.RefError as e:
                return "reject:" + str(e)
            return "ok" if segs == [("port", want_port, [link])] else "mismatch"
        except Exception as e:
            return exc(e)
    return h


PORT_ALIASES = {"backplane": 1, "bp": 1, "enet": 2, "dhrio-a": 2, "dhrio-b": 3, "dnet": 2, "cnet": 2, "dh485-a": 2, "dh485-b": 3}
for name, num in PORT_ALIASES.items():
    REG.add(f"port/{name}", _mk_port(name, num), pre=lambda link, as_str: 0 <= link < 256, desc="link 0..255 symbolic, as int and as numeric string", funcs=F[3:4])
UNDOCUMENTED = sorted(set(dt.PortSegment.port_segments) - set(PORT_ALIASES))


def _port_num(p: int, link: int) -> str:
    try:
        enc = list(dt.PortSegment.encode(dt.PortSegment(p, link), padded=True))
        try:
            segs = E.parse_segments(enc)
        except E.RefError as e:
            return "reject:" + str(e)
        return "ok" if segs == [("port", p, [link])] else "mismatch"
    except Exception as e:
        return exc(e)


REG.add("port/number", _port_num, pre=lambda p, link: 1 <= p <= 14 and 0 <= link < 256, desc="port number 1..14 and link 0..255 symbolic", funcs=F[3:4])


def _mk_port_ip(pos):
    def h(x: int) -> str:
        try:
            o = [10, 20, 30, 40]
            o[pos] = x
            s = f"{o[0]}.{o[1]}.{o[2]}.{o[3]}"
            enc = list(dt.PortSegment.encode(dt.PortSegment("enet", s), padded=True))
            try:
                segs = E.parse_segments(enc)
            except E.RefError as e:
                return "reject:" + str(e)
            return "ok" if segs == [("port", 2, [ord(c) for c in s])] and len(enc) % 2 == 0 else "mismatch"
        except Exception as e:
            return exc(e)
    return h


for pos in range(4):
    REG.add(f"port/ip/octet{pos}", _mk_port_ip(pos), pre=lambda x: 0 <= x < 256, desc=f"dotted quad link, octet {pos} symbolic (odd and even string lengths)",
            funcs=F[3:4], timeout=180)


# ------------------------------------------------------------- tag request paths
def _tag_ob(name, build, nidx, tier="quick", full=None, timeout=180):
    """build(idx list) -> (tag string, tag_info, use_instance_ids, expected segments)"""
    import inspect
    from vlib.tspec import vec_fn, vec_pre

    def body(xs):
        try:
            tag, info, use_ids, want = build(xs)
            enc = tag_request_path(tag, info, use_ids)
            if enc is None:
                return "none"
            segs, used = parse(list(enc))
            if used != len(enc):
                return str(segs)
            return "ok" if segs == want else "mismatch"
        except Exception as e:
            return exc(e)
    if full is None:
        dom = lambda xs: all(0 <= x < 2**32 for x in xs)
        d = f"{nidx} array indices, each symbolic over 0..2^32-1"
    else:
        dom = lambda xs: all((0 <= x < 2**32) if k == full else (0 <= x < 1000) for k, x in enumerate(xs))
        d = f"{nidx} array indices: index {full} symbolic over 0..2^32-1, the others over 0..999 (decimal rendering forks per digit count)"
    REG.add("tag/" + name, vec_fn(nidx, body), pre=vec_pre(nidx, dom), tier=tier, timeout=timeout, desc=d, funcs=F[4:])


def sym(s):
    return ("symbol", [ord(c) for c in s])


def mem(i):
    return ("logical", "member_id", i)


_tag_ob("base", lambda xs: ("Tag1", {}, False, [sym("Tag1")]), 0)
_tag_ob("base-odd", lambda xs: ("Tag", {}, False, [sym("Tag")]), 0)
_tag_ob("idx1", lambda xs: (f"Tag1[{xs[0]}]", {}, False, [sym("Tag1"), mem(xs[0])]), 1)
_tag_ob("idx2", lambda xs: (f"Arr[{xs[0]},{xs[1]}]", {}, False, [sym("Arr"), mem(xs[0]), mem(xs[1])]), 2)
_idx3 = lambda xs: (f"Arr[{xs[0]},{xs[1]},{xs[2]}]", {}, False, [sym("Arr"), mem(xs[0]), mem(xs[1]), mem(xs[2])])
for _k in range(3):
    _tag_ob(f"idx3/full{_k}", _idx3, 3, full=_k)
_tag_ob("idx3/all-full", _idx3, 3, tier="thorough", timeout=2400)
_tag_ob("member", lambda xs: ("Udt.Member", {}, False, [sym("Udt"), sym("Member")]), 0)
_tag_ob("member-idx", lambda xs: (f"Udt[{xs[0]}].Mem[{xs[1]}].k", {}, False, [sym("Udt"), mem(xs[0]), sym("Mem"), mem(xs[1]), sym("k")]), 2)
_tag_ob("program", lambda xs: (f"Program:Main.Tag1[{xs[0]}].x", {"instance_id": 77}, True,
                                [sym("Program:Main"), sym("Tag1"), mem(xs[0]), sym("x")]), 1)
_three = lambda xs: (f"A[{xs[0]}].B[{xs[1]},{xs[2]}].C.D", {}, False, [sym("A"), mem(xs[0]), sym("B"), mem(xs[1]), mem(xs[2]), sym("C"), sym("D")])
for _k in range(3):
    _tag_ob(f"three-levels/full{_k}", _three, 3, full=_k)
_tag_ob("three-levels/all-full", _three, 3, tier="thorough", timeout=2400)


def _tag_instance(iid: int, i: int) -> str:
    try:
        enc = tag_request_path(f"Tag1[{i}].m", {"instance_id": iid}, True)
        segs, used = parse(list(enc))
        if used != len(enc):
            return str(segs)
        want = [("logical", "class_id", 0x6B), ("logical", "instance_id", iid), mem(i), sym("m")]
        return "ok" if segs == want else "mismatch"
    except Exception as e:
        return exc(e)


REG.add("tag/instance-id", _tag_instance, pre=lambda iid, i: 1 <= iid < 2**32 and 0 <= i < 2**32,
        desc="symbol-instance addressing: instance id and index symbolic over 32 bits", funcs=F[4:], timeout=180)


def _tag_instance_off(iid: int) -> str:
    try:
        enc = tag_request_path("Tag1", {"instance_id": iid}, False)
        segs, used = parse(list(enc))
        return "ok" if segs == [sym("Tag1")] and used == len(enc) else "mismatch"
    except Exception as e:
        return exc(e)


REG.add("tag/instance-id-disabled", _tag_instance_off, pre=lambda iid: 0 <= iid < 2**32, desc="use_instance_ids False -> symbolic addressing", funcs=F[4:])


def _msg_router(replay=None):
    from pycomm3.const import MSG_ROUTER_PATH
    enc = list(dt.PADDED_EPATH.encode(MSG_ROUTER_PATH, length=True))
    ok = parse(enc) == ([("logical", "class_id", 2), ("logical", "instance_id", 1)], len(enc))
    if replay is not None:
        return {"reproduced": not ok}
    return {"status": "confirmed", "queries": 0} if ok else {"status": "refuted", "cex": {"path": enc}, "reproduced": True, "detail": "MSG_ROUTER_PATH"}


REG.add("const/MSG_ROUTER_PATH", _msg_router, engine="N", twin=False, desc="message router path constant", funcs=["const.MSG_ROUTER_PATH"])
