"""C05  Uploaded tag list and type definitions mirror the controller.

The real LogixDriver.get_tag_list (and the upload inside open()) runs against the reference controller
with a generated project; symbol metadata (instance ids, dimensions, external access, base-tag bit),
template member offsets / bit numbers / array lengths, the pagination points of the symbol list and the
fragment size of template reads are SYMBOLIC.  The resulting tag database is compared with an independent
expectation computed from the controller's symbol table."""
import json
from vlib.ob import Registry
from vlib import scen, chplugin
from vlib.ref import values as V
from vlib.ref.logix import Member, Template, Symbol, Target, ATOMIC_NAME
from vlib.sym import sym_and
from vlib.tspec import vec_fn, vec_pre
from pycomm3.cip.status_info import EXTERNAL_ACCESS

REG = Registry("C05")
BOUNDS = {"quick": {"symbols": "<= 34 incl. programs, routines, tasks, map/cxn, system and module symbols", "templates": "6 (+ nesting depth 2, packed BOOLs, hidden hosts, strings of capacity 5/7/8/82)",
                    "pagination": "first two page sizes symbolic", "template fragment size": "symbolic 8..48", "symbolic metadata": "instance id, 3 dimensions, external access, base bit, member offsets, bit numbers, array length, structure size"}}
OUTSIDE = ["larger projects", "symbol names as free strings (names come from a fixed alphabet covering odd/even lengths and every filtered prefix)", "firmware-specific quirks of real controllers"]
TRUSTED = ["vlib.ref.logix symbol / template object model (Logix data access manual ch. 3/4)", "expectation function below (independent filter rules taken from the property statement)"]
ASSUMPTIONS = ["external-access texts are the library's EXTERNAL_ACCESS table (data)"]
F = ["logix_driver.LogixDriver.get_tag_list", "logix_driver._get_tag_list", "logix_driver._get_instance_attribute_list_service", "logix_driver._parse_instance_attribute_list",
     "logix_driver._isolate_user_tags", "logix_driver._create_tag", "logix_driver._get_structure_makeup", "logix_driver._read_template", "logix_driver._parse_template_data",
     "logix_driver._parse_template_data_member_info", "logix_driver._get_data_type", "logix_driver.tags_json", "custom_types.StructTag", "custom_types.FixedSizeString"]


KEEP = {"D1", "I1", "R1", "S3", "BA", "U1", "UA", "O1", "ST", "S5", "Program:Main", "PD", "PU", "Routine:R1"}


def member_key(typ, m):
    """name under which a member is listed: unnamed (reserved) members become private __unknown<k> in declaration order"""
    if m.name:
        return m.name
    return "__unknown%d" % [x for x in typ.members if not x.name].index(m)


def project(meta=None, rev=32, small=False, **kw):
    """std project + system / module / alias symbols.  meta: symbolic overrides.  small: the reduced symbol table used by the symbolic obligations"""
    meta = meta or {}
    t = scen.std_project(revision_major=rev, **kw)
    if small == "tiny":
        t.symbols = [s for s in t.symbols if s.name in ("D1", "I1", "R1", "S3", "U1", "O1", "Program:Main", "PD")]
    elif small:
        t.symbols = [s for s in t.symbols if s.name in KEEP]
    t1 = [x for x in t.templates.values() if x.name == "UDT1"][0]
    io = Template(0x130, "AB:1756_DI:I:0", 8, [Member("Fault", 0xC4, 0), Member("Data", 0xC4, 4)])
    t.templates[io.instance_id] = io
    # a type with unnamed (reserved) members between named ones: two consecutive NULs inside the name block
    rsv = Template(0x140, "RSV1", 16, [Member("Status", 0xC4, 0), Member("", 0xC4, 4), Member("Pos", 0xCA, 8), Member("", 0xC3, 12), Member("Cnt", 0xC3, 14)])
    t.templates[rsv.instance_id] = rsv
    extra = [
        Symbol("Task:MainTask", 50, 0x70), Symbol("Map:Local", 51, 0x69), Symbol("Cxn:Standard:abc", 52, 0x7E), Symbol("__DEFVAL_0001", 53, 0xC4),
        Symbol("Local:1:I", 54, io), Symbol("Local:1:C", 55, io), Symbol("Rack:O", 56, 0xC4), Symbol("ALIAS1", 57, 0xC4, base=False),
        Symbol("SysHidden", 58, 0xC4, system=True), Symbol("Program:Second", 59, 0x68), Symbol("P2T", 60, 0xC3, (3,), program="Second"),
        Symbol("Routine:Main", 61, 0x6D, program="Second"), Symbol("__hidden_in_prog", 62, 0xC4, program="Main"),
        Symbol("A", 63, 0xC2), Symbol("Odd", 64, 0xC6, (2, 2)),
        Symbol("Drive:I1", 65, 0xC4), Symbol("Local:3:I2", 66, io), Symbol("Remote:S", 67, 0xC3), Symbol("RV", 68, rsv),
    ]
    if small == "tiny":
        extra = [e for e in extra if e.name in ("ALIAS1", "__DEFVAL_0001", "RV")]
    elif small:
        extra = [e for e in extra if e.name in ("Task:MainTask", "Map:Local", "__DEFVAL_0001", "Local:1:I", "ALIAS1", "SysHidden", "A", "Drive:I1", "Local:3:I2", "RV")]
    t.symbols += extra
    if "iid" in meta:
        t.find_symbol("D1").instance_id = meta["iid"]
    if "dims" in meta:
        s = t.find_symbol("S3")
        s.dims = list(meta["dims"])
    if "access" in meta:
        t.find_symbol("I1").access = meta["access"]
    if "base" in meta:
        t.find_symbol("R1").base = meta["base"]
    if "t1" in meta:
        a_off, host_off, bit0, bit1, arr_len, arr_off, size = meta["t1"]
        t1.members = [Member("a", 0xC4, a_off), Member("ZZZZZZZZZZUDT1_4", 0xC2, host_off), Member("b0", 0xC1, host_off, bit=bit0), Member("b1", 0xC1, host_off, bit=bit1),
                      Member("arr", 0xC3, arr_off, array=arr_len), Member("r", 0xCA, 12)]
        t1.size = size
    return t


def visible(name):
    for p in ("Program:", "Routine:", "Task:"):
        if name.startswith(p):
            return False
    if "Map:" in name or "Cxn:" in name or name.startswith("__"):
        return False
    return True


def expect_type(typ, got, where):
    """compare a data type description (atomic name or struct definition dict)"""
    if isinstance(typ, int):
        return None if got == ATOMIC_NAME[typ] else f"{where}: data type {got!r}"
    if not isinstance(got, dict) or got.get("name") != typ.name:
        return f"{where}: struct name"
    if got["template"]["structure_size"] != typ.size or got["template"]["member_count"] != len(typ.members):
        return f"{where}: template attributes"
    vis = [m.name for m in typ.members if m.name and not V.hidden(m.name)]
    if list(got["attributes"]) != vis:
        return f"{where}: visible members {got['attributes']}"
    if set(got["internal_tags"]) != {member_key(typ, m) for m in typ.members}:
        return f"{where}: member set"
    for m in typ.members:
        it = got["internal_tags"][member_key(typ, m)]
        if it["offset"] != m.offset:
            return f"{where}.{m.name}: offset"
        if m.typ == 0xC1:
            if it.get("bit") != (m.bit if m.bit is not None else 0) or it["data_type_name"] != "BOOL":
                return f"{where}.{m.name}: bit"
        else:
            if it.get("array") != m.array:
                return f"{where}.{m.name}: array length"
            r = expect_type(m.typ, it["data_type"], f"{where}.{m.name}")
            if r:
                return r
            if it["tag_type"] != ("atomic" if isinstance(m.typ, int) else "struct"):
                return f"{where}.{m.name}: tag_type"
    if V.is_string_template(typ):
        cap = [m.array for m in typ.members if m.name == "DATA"][0]
        if got.get("string") != cap:
            return f"{where}: string capacity"
    elif "string" in got:
        return f"{where}: not a string"
    return None


def _not_json(o, where="tags"):
    if o is None or isinstance(o, (bool, int, float, str)):
        return None
    if isinstance(o, (list, tuple)):
        for i, x in enumerate(o):
            r = _not_json(x, f"{where}[{i}]")
            if r:
                return r
        return None
    if isinstance(o, dict):
        for k, v in o.items():
            if not isinstance(k, (str, int)):
                return where + ": key " + repr(type(k))
            r = _not_json(v, f"{where}.{k}")
            if r:
                return r
        return None
    return where + ": " + type(o).__name__


def compare(d, target, rev, program_tags=True, symbolic_meta=False):
    exp = {}
    for s in target.symbols:
        if s.system or not visible(s.name):
            continue
        if s.program is not None and not program_tags:
            continue
        exp[s.name if s.program is None else f"Program:{s.program}.{s.name}"] = s
    got = d.tags
    listed = getattr(d, "_v_returned", None)
    if listed is not None and sorted(x["tag_name"] for x in listed) != sorted(exp):
        return "list returned by get_tag_list() is not the tag set (duplicated / missing records): %d records for %d tags" % (len(listed), len(exp))
    if sorted(got) != sorted(exp):
        return "tag set: missing %s / invented %s" % (sorted(set(exp) - set(got))[:3], sorted(set(got) - set(exp))[:3])
    for name, s in exp.items():
        g = got[name]
        if g["tag_name"] != name or g["instance_id"] != s.instance_id:
            return name + ": name/instance id"
        if g["dim"] != len(s.dims) or list(g["dimensions"]) != (s.dims + [0, 0, 0])[:3]:
            return name + ": dimensions"
        if g["alias"] != (not s.base):
            return name + ": alias flag"
        want_acc = EXTERNAL_ACCESS.get(s.access, "Unknown") if rev >= 18 else "Unknown"
        if g["external_access"] != want_acc:
            return name + ": external access"
        if g["tag_type"] != ("atomic" if isinstance(s.typ, int) else "struct"):
            return name + ": tag_type"
        if g["data_type_name"] != V.type_name(s.typ):
            return name + ": data type name"
        r = expect_type(s.typ, g["data_type"], name)
        if r:
            return r
    progs = {s.name[8:]: s for s in target.symbols if s.name.startswith("Program:")}
    if sorted(d.info.get("programs", {})) != sorted(progs):
        return "programs"
    for p, s in progs.items():
        if d.info["programs"][p]["instance_id"] != s.instance_id:
            return "program instance id"
        if program_tags and sorted(d.info["programs"][p]["routines"]) != sorted(x.name[8:] for x in target.symbols if x.program == p and x.name.startswith("Routine:")):
            return "routines"
    if sorted(d.info.get("tasks", {})) != sorted(s.name[5:] for s in target.symbols if s.name.startswith("Task:")):
        return "tasks"
    if symbolic_meta:
        # json.dumps would pin every symbolic number to one value (endless enumeration): check serialisability structurally instead
        bad = _not_json(d.tags_json)
        if bad:
            return "tags_json: " + bad
    else:
        try:
            json.dumps(d.tags_json)
        except Exception as e:
            return "tags_json: " + type(e).__name__
    if target.violations:
        return "protocol:" + target.violations[0]
    if d._sock.frame_errors:
        return "frame:" + d._sock.frame_errors[0]
    return "ok"


def upload(target, rev, program="*"):
    d = scen.make_driver(target, rev=rev)
    d._v_returned = d.get_tag_list(program=program)
    return d


# ---------------------------------------------------------------- pagination of the symbol list
def pagination(p1: int, p2: int, p3: int) -> str:
    try:
        t = project(page_sizes=[p1, p2, p3], small=True)
        return compare(upload(t, 32), t, 32)
    except Exception as e:
        return "exc:" + type(e).__name__ + ":" + str(e)[:80]


for lo, hi in ((1, 5), (5, 9), (9, 13), (13, 18)):
    REG.add(f"pagination/first-page-{lo}-{hi - 1}", pagination, pre=lambda p1, p2, p3, lo=lo, hi=hi: lo <= p1 < hi and 1 <= p2 <= 4 and p3 == 3, timeout=1500, weight=4, funcs=F,
            desc=f"the controller returns p1 symbols in its first reply (symbolic {lo}..{hi - 1}), p2 in the second (symbolic 1..4), 3 in the third, then the rest, per scope "
                 "(reduced project: 16 controller-scope symbols); the uploaded database must not depend on them")
for lo, hi in ((1, 4), (4, 7)):
    REG.add(f"pagination/three-symbolic-page-sizes/{lo}-{hi - 1}", pagination, pre=lambda p1, p2, p3, lo=lo, hi=hi: lo <= p1 < hi and 1 <= p2 <= 5 and 1 <= p3 <= 5, timeout=2400, weight=4, funcs=F,
            tier="thorough", desc=f"first page size symbolic {lo}..{hi - 1}, second and third each symbolic 1..5")


def template_fragments(frag: int) -> str:
    try:
        t = project(template_frag=frag, small=True)
        return compare(upload(t, 32), t, 32)
    except Exception as e:
        return "exc:" + type(e).__name__ + ":" + str(e)[:80]


for lo, hi in ((8, 18), (18, 30), (30, 48)):
    REG.add(f"template-fragments/{lo}-{hi}", template_fragments, pre=lambda frag, lo=lo, hi=hi: lo <= frag < hi, timeout=1500, weight=4, funcs=F,
            desc=f"the controller returns at most `frag` bytes per template read, frag symbolic {lo}..{hi - 1}")


# ---------------------------------------------------------------- symbolic symbol metadata
def metadata(iid: int, d1: int, d2: int, d3: int, access: int, base: bool) -> str:
    try:
        t = project(meta={"iid": iid, "dims": [d1, d2, d3], "access": access, "base": base}, small="tiny")
        return compare(upload(t, 32), t, 32, symbolic_meta=True)
    except Exception as e:
        return "exc:" + type(e).__name__ + ":" + str(e)[:80]


# one symbolic field per obligation (each path is a whole upload under the tracer: ~5 s)
_fixed = dict(iid=1, d1=2, d2=2, d3=2, access=0, base=True)


def _only(**sym):
    def pre(iid, d1, d2, d3, access, base):
        vals = dict(iid=iid, d1=d1, d2=d2, d3=d3, access=access, base=base)
        ok = True
        for k, v in vals.items():
            if k in sym:
                lo, hi = sym[k]
                ok = ok and lo <= v < hi
            else:
                ok = ok and v == _fixed[k]
        return ok
    return pre


REG.add("metadata/instance-id", metadata, pre=_only(iid=(100, 2**32)), timeout=900, weight=3, funcs=F, desc="instance id of a tag symbolic over 100..2^32-1 (tiny project)")
REG.add("metadata/external-access", metadata, pre=_only(access=(0, 256)), timeout=900, weight=3, funcs=F, desc="external access byte symbolic 0..255 (known texts and 'Unknown')")
REG.add("metadata/base-tag-bit", metadata, pre=lambda iid, d1, d2, d3, access, base: (iid, d1, d2, d3, access) == (1, 2, 2, 2, 0), timeout=900, weight=2, funcs=F, desc="base-tag bit symbolic: alias flag")
for _k in ("d1", "d2", "d3"):
    REG.add(f"metadata/dimension-{_k}", metadata, pre=_only(**{_k: (1, 2**16)}), timeout=900, weight=3, funcs=F, desc=f"dimension {_k} of a 3-dimensional array symbolic 1..65535")


def template_layout(a_off: int, host_off: int, bit0: int, bit1: int, arr_len: int, arr_off: int, size: int) -> str:
    try:
        t = project(meta={"t1": (a_off, host_off, bit0, bit1, arr_len, arr_off, size)}, small="tiny")
        return compare(upload(t, 32), t, 32, symbolic_meta=True)
    except Exception as e:
        return "exc:" + type(e).__name__ + ":" + str(e)[:80]


_tfix = dict(a_off=0, host_off=4, bit0=0, bit1=1, arr_len=2, arr_off=6, size=16)


def _tonly(**sym):
    def pre(a_off, host_off, bit0, bit1, arr_len, arr_off, size):
        vals = dict(a_off=a_off, host_off=host_off, bit0=bit0, bit1=bit1, arr_len=arr_len, arr_off=arr_off, size=size)
        ok = bit0 != bit1
        for k, v in vals.items():
            if k in sym:
                lo, hi = sym[k]
                ok = ok and lo <= v < hi
            else:
                ok = ok and v == _tfix[k]
        return ok
    return pre


for _name, _sym in (("member-offsets", dict(a_off=(0, 2**16), arr_off=(0, 2**16))), ("host-offset+bits", dict(host_off=(0, 2**16), bit0=(0, 8), bit1=(0, 8))),
                    ("array-length", dict(arr_len=(1, 2**16))), ("structure-size", dict(size=(16, 2**20)))):
    REG.add(f"metadata/template/{_name}", template_layout, pre=_tonly(**_sym), timeout=900, weight=3, funcs=F,
            desc=f"UDT1 (used by U1 and nested in OUTER): {', '.join(_sym)} symbolic")


# ---------------------------------------------------------------- firmware generations / scopes (concrete shapes, every frame checked)
def _mk_shape(rev, program, program_tags):
    def run(replay=None):
        t = project(rev=rev, page_sizes=[2, 5, 1, 3])
        d = upload(t, rev, program)
        r = compare(d, t, rev, program_tags)
        attr_counts = {len(e[3]) for e in t.log if e[1] == 0x55}
        if r == "ok" and attr_counts != ({16} if rev >= 18 else {14}):
            r = "attribute list does not match the firmware generation: %s" % attr_counts
        if replay is not None:
            return {"reproduced": r != "ok"}
        return {"status": "confirmed", "queries": 0} if r == "ok" else {"status": "refuted", "cex": {"rev": rev, "program": program}, "reproduced": True, "detail": r}
    return run


for rev, program, pt in ((32, "*", True), (17, "*", True), (20, "*", True), (32, None, False)):
    REG.add(f"shape/rev{rev}/program-{program}", _mk_shape(rev, program, pt), engine="N", twin=False, funcs=F,
            desc=f"firmware {rev}, get_tag_list(program={program!r}): concrete project, pages of 2/5/1/3 symbols")


def via_open(sess: int) -> str:
    try:
        from pycomm3 import LogixDriver
        t = project(page_sizes=[7, 3])
        t.next_session = sess
        d = LogixDriver("10.0.0.1", init_tags=True, init_program_tags=True)
        d._sock = scen.FakeSocket(t)
        if not d.open():
            return "open"
        return compare(d, t, 32)
    except Exception as e:
        return "exc:" + type(e).__name__ + ":" + str(e)[:80]


REG.add("via-open", via_open, pre=lambda sess: 1 <= sess < 2**32, timeout=900, weight=2, funcs=F + ["logix_driver.LogixDriver.open"],
        desc="the upload performed by open() itself (init_tags=True), session handle symbolic")
