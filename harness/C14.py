"""C14  Generic messaging delivers the request verbatim and returns the answer."""
from vlib.ob import Registry
from vlib import scen, chplugin
from vlib.ref import eip, epath as EP
from vlib.ref.values import band
from pycomm3.cip.data_types import UINT, DINT, Struct, SHORT_STRING, PortSegment, PADDED_EPATH
from pycomm3.exceptions import ResponseError

REG = Registry("C14")
BOUNDS = {"quick": {"service": "symbolic 0..127", "class/instance/attribute": "ints symbolic 0..2^32-1, and 1/2/4 symbolic bytes", "request data": "symbolic bytes of length 0..5",
                    "reply": "symbolic status byte and up to 4 symbolic data bytes", "modes": "connected, UCMM, Unconnected Send", "route_path": "True, False, string template, segment list, bytes"}}
OUTSIDE = ["datetime/strftime rendering in get_plc_time (the microsecond value it is built from is checked)", "request data longer than 5 bytes (covered up to the connection size by C04/C11)"]
TRUSTED = ["vlib.ref.logix message router log and Unconnected Send parser", "vlib.ref.epath"]
ASSUMPTIONS = []
F = ["cip_driver.CIPDriver.generic_message", "packets.cip.GenericConnectedRequestPacket._setup_message", "packets.cip.GenericUnconnectedRequestPacket._setup_message",
     "packets.util.wrap_unconnected_send", "packets.util.request_path", "packets.cip.GenericConnectedResponsePacket._parse_reply",
     "packets.cip.GenericUnconnectedResponsePacket._parse_reply", "logix_driver.LogixDriver.get_plc_name", "logix_driver.LogixDriver.get_plc_info",
     "cip_driver.CIPDriver.get_module_info", "logix_driver.LogixDriver.get_plc_time", "logix_driver.LogixDriver.set_plc_time"]


def mk(reply_fn=None, path="10.0.0.1/bp/3"):
    target = scen.std_project()
    if reply_fn is not None:
        target.generic_hook = reply_fn
    from pycomm3 import LogixDriver
    d = scen.make_driver(target, path=path)
    return target, d


def last(target):
    return target.log[-1]


def _mk_ints(mode):
    def h(svc: int, c: int, i: int, a: int, data: bytes, st: int, rep: bytes) -> str:
        try:
            target, d = mk(lambda s, segs, dat, tr: eip.cip_reply(s, st, list(rep)))
            kw = {"connected": mode == "connected", "unconnected_send": mode == "ucsend"}
            if mode == "ucmm":
                kw["route_path"] = False     # with the default route_path=True the route bytes are appended to the data: known finding C14-ucmm-default-route
            tg = d.generic_message(service=svc, class_code=c, instance=i, attribute=a, request_data=data, name="n1", **kw)
            tr, s, segs, dat, route = last(target)
            want = [("logical", "class_id", c), ("logical", "instance_id", i)] + ([("logical", "attribute_id", a)] if a else [])
            if tr != {"connected": "connected", "ucmm": "ucmm", "ucsend": "ucsend"}[mode]:
                return "transport:" + tr
            if s != svc or segs != want or dat != list(data):
                return "request-altered"
            if mode == "ucsend" and route != [("port", 1, [3])]:
                return "route"
            if target.violations:
                return "protocol:" + target.violations[0]
            if d._sock.frame_errors:
                return "frame:" + d._sock.frame_errors[0]
            if tg.tag != "n1":
                return "name"
            if st == 0:
                return "ok" if tg and tg.value == rep and tg.error is None else "reply-altered"
            if tg or tg.error is None or len(tg.error) == 0:
                return "error-not-reported"
            return "ok"
        except Exception as e:
            return "exc:" + type(e).__name__ + ":" + str(e)[:80]
    return h


for mode in ("connected", "ucmm", "ucsend"):
    for dl in (0, 1, 2, 5):
        # split by range preconditions (DESIGN 2.1 rule 6): one of class/instance/attribute over all 32 bits, the other two over 0..65535;
        # status 0 here, status symbolic with fixed addressing below
        for full in ("class", "instance", "attribute"):
            if dl in (1, 2) and full != "instance":
                continue
            def pre(svc, c, i, a, data, st, rep, dl=dl, full=full, mode=mode):
                lim = {"class": (2**32, 65536, 65536), "instance": (65536, 2**32, 65536), "attribute": (65536, 65536, 2**32)}[full]
                ok = svc == 0x4B and 0 <= c < lim[0] and 0 <= i < lim[1] and 0 <= a < lim[2] and len(data) == dl and st == 0 and len(rep) == (dl % 3) + 1
                if mode == "ucmm":
                    ok = ok and not (c == 6 and i == 1)      # the connection manager's own services (Forward Open, Unconnected Send) are not generic requests
                return ok
            REG.add(f"verbatim/{mode}/data{dl}/addressing-{full}", _mk_ints(mode), pre=pre, timeout=400, funcs=F, weight=2,
                    desc=f"{mode}: {full} over 0..2^32-1 and the other two ids over 0..65535, {dl} request bytes and the reply data symbolic; router log must show the request verbatim")
    REG.add(f"verbatim/{mode}/service", _mk_ints(mode),
            pre=lambda svc, c, i, a, data, st, rep, mode=mode: 0 <= svc < 128 and c == 0x99 and i == 300 and a == 7 and len(data) == 3 and st == 0 and len(rep) == 2,
            timeout=400, funcs=F, desc=f"{mode}: service code symbolic over 0..127 (every value), odd-length data")
    REG.add(f"verbatim/{mode}/status", _mk_ints(mode),
            pre=lambda svc, c, i, a, data, st, rep: svc == 0x0E and c == 0x99 and i == 1 and a == 0 and len(data) == 2 and 1 <= st < 256 and st != 6 and len(rep) == 1,
            timeout=400, funcs=F, desc=f"{mode}: refused with a symbolic general status 1..255 -> falsy Tag carrying a non-empty error")


def _mk_bytes(wc, wi, wa):
    def h(svc: int, c: bytes, i: bytes, a: bytes, data: bytes) -> str:
        try:
            target, d = mk(lambda s, segs, dat, tr: eip.cip_reply(s, 0, [7]))
            tg = d.generic_message(service=bytes([svc]), class_code=c, instance=i, attribute=a, request_data=data, connected=False, unconnected_send=True)
            tr, s, segs, dat, route = last(target)
            val = lambda b: sum(b[k] * 256 ** k for k in range(len(b)))
            want = [("logical", "class_id", val(c)), ("logical", "instance_id", val(i))] + ([("logical", "attribute_id", val(a))] if wa else [])
            if s != svc or segs != want or dat != list(data) or target.violations:
                return "request-altered"
            return "ok" if tg and tg.value == b"\x07" else "reply"
        except Exception as e:
            return "exc:" + type(e).__name__ + ":" + str(e)[:80]
    return h


for wc, wi, wa in ((1, 1, 0), (2, 2, 1), (1, 4, 2), (4, 1, 4)):
    REG.add(f"verbatim/bytes/{wc}{wi}{wa}", _mk_bytes(wc, wi, wa),
            pre=lambda svc, c, i, a, data, wc=wc, wi=wi, wa=wa: 0 <= svc < 128 and len(c) == wc and len(i) == wi and len(a) == wa and len(data) == 3, timeout=300, funcs=F,
            desc=f"service as bytes, class/instance/attribute as {wc}/{wi}/{wa} symbolic bytes, odd-length data (pad byte in the Unconnected Send)")


# ---- route_path forms for unconnected messages
def _route(kind):
    def h(slot: int, s2: int, svc: int) -> str:
        try:
            target, d = mk(lambda s, segs, dat, tr: eip.cip_reply(s, 0, [1, 2]), path="10.0.0.1/bp/" + str(slot))
            if kind == "true":
                rp, want = True, [("port", 1, [slot])]
            elif kind == "false":
                rp, want = False, None
            elif kind == "string":
                rp, want = "bp/" + str(slot) + "/enet/" + str(s2), [("port", 1, [slot]), ("port", 2, [s2])]
            elif kind == "segments":
                rp, want = [PortSegment("bp", slot), PortSegment(2, s2)], [("port", 1, [slot]), ("port", 2, [s2])]
            else:
                rp, want = bytes(PADDED_EPATH.encode([PortSegment(3, s2)], length=True, pad_length=True)), [("port", 3, [s2])]
            tg = d.generic_message(service=svc, class_code=0x01, instance=1, connected=False, unconnected_send=(kind != "false"), route_path=rp, request_data=b"\x09")
            tr, s, segs, dat, route = last(target)
            if target.violations:
                return "protocol:" + target.violations[0]
            if s != svc or dat != [9]:
                return "request-altered"
            if kind == "false":
                return "ok" if tr == "ucmm" and tg else "mode"
            return "ok" if tr == "ucsend" and route == want and tg and tg.value == b"\x01\x02" else "route"
        except Exception as e:
            return "exc:" + type(e).__name__ + ":" + str(e)[:80]
    return h


for kind in ("true", "false", "string", "segments", "bytes"):
    REG.add(f"route/{kind}", _route(kind), pre=lambda slot, s2, svc: 0 <= slot < 256 and 0 <= s2 < 256 and 0 <= svc < 128, timeout=300, funcs=F,
            desc=f"route_path given as {kind}: slots and service symbolic; the Unconnected Send's embedded length, pad byte and route are checked by the controller")


# ---- reply decoded with a data type
def decoded(a: int, b: int, st: int) -> str:
    try:
        T = Struct(UINT("x"), DINT("y"))
        target, d = mk(lambda s, segs, dat, tr: eip.cip_reply(s, st, eip.le(a, 2) + eip.le(b % 2**32, 4)))
        tg = d.generic_message(service=0x0E, class_code=0x99, instance=1, attribute=3, data_type=T, name="dec")
        if st == 0:
            return "ok" if tg and tg.value == {"x": a, "y": b} and tg.type is T else "decode"
        return "ok" if not tg and tg.error else "error-not-reported"
    except Exception as e:
        return "exc:" + type(e).__name__ + ":" + str(e)[:80]


REG.add("reply/decoded", decoded, pre=lambda a, b, st: 0 <= a < 65536 and -2**31 <= b < 2**31 and 0 <= st < 256 and st != 6, funcs=F, timeout=300,
        desc="reply data decoded with the supplied Struct type; values and status symbolic")


def short_reply(st: int) -> str:
    try:
        target, d = mk(lambda s, segs, dat, tr: eip.cip_reply(s, 0, [1]))
        tg = d.generic_message(service=0x0E, class_code=0x99, instance=1, data_type=DINT, name="dec")
        return "ok" if not tg and tg.error else "truncated-reply-accepted"
    except Exception as e:
        return "exc:" + type(e).__name__ + ":" + str(e)[:80]


REG.add("reply/undecodable", short_reply, pre=lambda st: st == 0, funcs=F, desc="reply too short for the supplied data type -> falsy Tag with error", twin=True)


# ---- helpers
def helper_name(n0: int, n1: int, n2: int) -> str:
    try:
        target, d = mk()
        target.program_name = chr(n0) + chr(n1) + chr(n2)
        name = d.get_plc_name()
        tr, s, segs, dat, route = last(target)
        if (tr, s, segs, dat) != ("connected", 0x01, [("logical", "class_id", 0x64), ("logical", "instance_id", 1)], []):
            return "request"
        return "ok" if name == target.program_name and d.info["name"] == name and d.name == name and not target.violations else "plc-name"
    except Exception as e:
        return "exc:" + type(e).__name__ + ":" + str(e)[:80]


REG.add("helpers/get_plc_name", helper_name, pre=lambda n0, n1, n2: all(32 <= x < 256 for x in (n0, n1, n2)), timeout=300, funcs=F, desc="program name characters symbolic (Latin-1)")


def helper_info(major: int, minor: int, serial: int, pc: int, slot: int) -> str:
    try:
        target, d = mk()
        target.identity = dict(target.identity, major=major, minor=minor, serial=serial, product_code=pc)
        info = d.get_plc_info()
        tr, s, segs, dat, route = last(target)
        if (tr, s, segs, dat, route) != ("ucsend", 0x01, [("logical", "class_id", 1), ("logical", "instance_id", 1)], [], [("port", 1, [3])]):
            return "plc-info-request"
        if info["revision"] != {"major": major, "minor": minor} or info["product_code"] != pc or info["keyswitch"] != "REMOTE RUN":
            return "plc-info"
        if len(info["serial"]) != 8:
            return "serial-length"
        from vlib.sym import sym_and, hex_value
        okd, acc = hex_value(info["serial"])      # fork-free: all lowercase hex digits, value reconstructed linearly
        if not sym_and(okd, acc == serial):
            return "serial"
        mi = d.get_module_info(slot)
        tr, s, segs, dat, route = last(target)
        if tr != "ucsend" or s != 0x01 or segs != [("logical", "class_id", 1), ("logical", "instance_id", 1)] or route != [("port", 1, [slot])]:
            return "module-info-request"
        if mi["product_name"] != target.identity["product_name"] or mi["revision"]["major"] != major:
            return "module-info"
        return "ok" if not target.violations else "protocol:" + target.violations[0]
    except Exception as e:
        return "exc:" + type(e).__name__ + ":" + str(e)[:80]


# split by range preconditions: one group of fields symbolic at a time
REG.add("helpers/get_plc_info/serial", helper_info,
        pre=lambda major, minor, serial, pc, slot: major == 32 and minor == 11 and 0 <= serial < 2**32 and pc == 166 and slot == 2,
        timeout=400, funcs=F, desc="serial number symbolic over 32 bits (8 lowercase hex digits incl. leading zeros)")
REG.add("helpers/get_plc_info/revision-product-code", helper_info,
        pre=lambda major, minor, serial, pc, slot: 1 <= major < 256 and 0 <= minor < 256 and serial == 0x00C0FFEE and 0 <= pc < 65536 and slot == 2,
        timeout=400, funcs=F, desc="revision major/minor and product code symbolic")
REG.add("helpers/get_module_info/slot", helper_info,
        pre=lambda major, minor, serial, pc, slot: major == 32 and minor == 11 and serial == 0x00C0FFEE and pc == 166 and 0 <= slot < 256,
        timeout=400, funcs=F, desc="module slot symbolic 0..255: route of the Unconnected Send = connection route with the last hop replaced by backplane/slot")


def helper_time(us: int) -> str:
    try:
        target, d = mk()
        r = d.set_plc_time(us)
        tr, s, segs, dat, route = last(target)
        if (tr, s, segs) != ("connected", 0x04, [("logical", "class_id", 0x8B), ("logical", "instance_id", 1)]):
            return "set-request"
        if not r:
            return "set-time:" + str(r.error)
        if target.clock_us != us:
            return "clock-not-set"
        t = d.get_plc_time()
        if not t or t.value["microseconds"] != us:
            return "get-time"
        return "ok" if not target.violations else "protocol:" + target.violations[0]
    except Exception as e:
        return "exc:" + type(e).__name__ + ":" + str(e)[:80]


REG.add("helpers/set_plc_time-then-get_plc_time", helper_time, pre=lambda us: 0 <= us < 2**64, timeout=300, funcs=F,
        desc="microseconds symbolic over all 64 bits: the controller's clock holds it and get_plc_time reports it (datetime rendering stubbed)")


def helpers_fail(st: int) -> str:
    try:
        target, d = mk(lambda s, segs, dat, tr: eip.cip_reply(s, st, []))
        outs = []
        for fn in (d.get_plc_name, d.get_plc_info, lambda: d.get_module_info(1)):
            try:
                fn()
                outs.append("returned")
            except ResponseError:
                outs.append("ResponseError")
        t = d.get_plc_time()
        s = d.set_plc_time(5)
        return "ok" if outs == ["ResponseError"] * 3 and not t and t.error and not s and s.error else "refusal-not-reported:" + ",".join(outs)
    except Exception as e:
        return "exc:" + type(e).__name__ + ":" + str(e)[:80]


REG.add("helpers/refused", helpers_fail, pre=lambda st: 1 <= st < 256 and st != 6, timeout=300, funcs=F, desc="every helper against a target that refuses with a symbolic status 1..255")


def ucmm_default_route(replay=None):
    """known finding witness: UCMM without Unconnected Send and the default route_path=True"""
    target, d = mk(lambda s, segs, dat, tr: eip.cip_reply(s, 0, [1]))
    d.generic_message(service=0x0E, class_code=0x99, instance=1, attribute=3, request_data=b"\xaa\xbb", connected=False, unconnected_send=False)
    tr, s, segs, dat, route = last(target)
    bad = dat != [0xAA, 0xBB]
    if replay is not None:
        return {"reproduced": bad}
    if bad:
        return {"status": "refuted", "cex": {"call": "generic_message(connected=False, unconnected_send=False) with the default route_path=True", "delivered_data": dat},
                "reproduced": True, "known_id": "C14-ucmm-default-route", "detail": f"request data delivered as {dat} instead of [170, 187]"}
    return {"status": "confirmed", "queries": 0, "detail": "known finding no longer reproduces"}


REG.add("known/ucmm-default-route", ucmm_default_route, engine="N", twin=False, known="C14-ucmm-default-route", funcs=F[:3],
        desc="UCMM message with the default route_path=True: the encoded connection route is appended to the request data")
