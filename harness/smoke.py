from io import BytesIO
from vlib.ob import Registry
from pycomm3.cip.data_types import DINT, UINT, SHORT_STRING, STRING2, REAL
from pycomm3.exceptions import DataError
from vlib.sym import mkfloat, same_float
REG = Registry("SMOKE")

def rt_dint(v: int, sfx: bytes) -> str:
    try:
        enc = DINT.encode(v)
        s = BytesIO(enc + sfx)
        if DINT.decode(s) != v: return "value"
        if s.read() != sfx: return "suffix"
        return "ok"
    except Exception as e:
        return type(e).__name__
REG.add("rt/DINT", rt_dint, pre=lambda v, sfx: -2**31 <= v < 2**31 and len(sfx) == 2)
REG.add("rt/DINT-bad", rt_dint, pre=lambda v, sfx: -2**31 <= v <= 2**31 and len(sfx) == 2)

def rt_ss(s: str) -> str:
    try:
        return "ok" if SHORT_STRING.decode(SHORT_STRING.encode(s)) == s else "value"
    except Exception as e:
        return type(e).__name__
REG.add("rt/SHORT_STRING", rt_ss, pre=lambda s: len(s) <= 3 and all(ord(c) < 256 for c in s))
def rt_s2(s: str) -> str:
    try:
        return "ok" if STRING2.decode(STRING2.encode(s)) == s else "value"
    except Exception as e:
        return type(e).__name__
REG.add("rt/STRING2", rt_s2, pre=lambda s: len(s) <= 2 and all(ord(c) < 0xD800 for c in s))
def rt_real(bits: int) -> str:
    try:
        return "ok" if same_float(REAL.decode(REAL.encode(mkfloat(bits, 4))), bits, 4) else "value"
    except Exception as e:
        return type(e).__name__
REG.add("rt/REAL", rt_real, pre=lambda bits: 0 <= bits < 2**32)
