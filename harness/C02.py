"""C02  Tag writes change exactly the addressed data, exactly once.

Real LogixDriver.write against the reference controller; prior memory and written values are
symbolic.  After a truthy write the whole memory image is compared with the reference effect
(addressed range == reference encoding, every other byte unchanged), the target's write log must
show exactly one application per request, and a following read must return the value."""
from vlib.ob import Registry
from vlib.sym import concrete
from vlib import scen, chplugin
from vlib.ref import values as V
from vlib.ref import codec as R
from vlib.ref.values import band
from vlib.sym import mkfloat, same_float, mkstr
from vlib.tspec import vec_fn, vec_pre
from harness.C01 import TAGS, TAGS20, SIZES, T1, OUTER, STR8, STRING

# request strings by table lookup: indexing with a symbolic int makes the engine enumerate it, so masks/bit numbers are concrete per path
BITREQ = {t: [f"{t}.{i}" for i in range(64)] for t in ("S1", "I1", "D1", "L1", "U1.a")}
REG = Registry("C02")
BOUNDS = {"quick": {"requests per call": "<= 4", "prior memory": "all bytes of the written tags symbolic", "values": "symbolic over the full type range",
                    "bits": "bit number symbolic per word; <= 3 bits of one word per call", "fragments": "<= 4"},
          "thorough": {"requests per call": "<= 6"}}
OUTSIDE = ["> 6 requests per call", "real firmware", "strings longer than capacity are rejected by the reference controller (too much data) and therefore only checked to fail cleanly"]
TRUSTED = ["vlib.ref.logix reference controller (enforces exact data lengths, mask widths, fragment ranges; logs every applied write)",
           "vlib.ref.codec reference encodings", "BitArrayType summaries justified by the bits/* Engine B obligations in this run"]
ASSUMPTIONS = ["tag database uploaded by pycomm3's own get_tag_list (C05)"]
F = ["logix_driver.LogixDriver.write", "logix_driver.encode_value", "logix_driver._write_build_requests", "logix_driver._write_build_multi_requests",
     "logix_driver._write_build_single_request", "logix_driver._send_write_fragmented", "packets.logix.WriteTagRequestPacket",
     "packets.logix.WriteTagFragmentedRequestPacket", "packets.logix.ReadModifyWriteRequestPacket", "packets.logix.MultiServiceRequestPacket.build_message",
     "packets.base.RequestPacket.build_message", "custom_types.StructTag._encode", "custom_types.FixedSizeString._encode"]

if chplugin.SYMBOLIC:
    chplugin.install_bitarray_summaries()


def expected_image(old, effects):
    """-> predicate(new) as a fork-free conjunction"""
    def pred(new):
        if len(new) != len(old):
            return False
        touched = {}
        bitsets = {}
        ok = True
        for e in effects:
            k = e[0]
            if k == "int":
                _, off, n, signed, v = e
                ok = band(ok, R.eq_le(new[off:off + n], signed, v))
                for i in range(n):
                    touched[off + i] = True
            elif k == "float":
                _, off, n, bits = e
                ok = band(ok, R.from_le(new[off:off + n]) == bits)
                for i in range(n):
                    touched[off + i] = True
            elif k == "raw":
                _, off, bs = e
                for i, b in enumerate(bs):
                    ok = band(ok, new[off + i] == b)
                    touched[off + i] = True
            elif k == "bit":
                _, off, bit, val = e
                bitsets.setdefault(off, {})[bit] = val
                touched[off] = True
        for off, bs in bitsets.items():
            # same linear shape as the reference controller's read-modify-write: old + sum (val - oldbit)*2^j
            exp = old[off]
            for j, val in sorted(bs.items()):
                oldbit = (old[off] // (1 << j)) % 2
                if val is True:
                    exp = exp + (1 - oldbit) * (1 << j)
                elif val is False:
                    exp = exp - oldbit * (1 << j)
                else:
                    exp = exp + ((1 if val else 0) - oldbit) * (1 << j)
            ok = band(ok, new[off] == exp)
        for i in range(len(old)):
            if not touched.get(i):
                ok = band(ok, new[i] == old[i])
        return ok
    return pred


def add(id, symtags, nvals, build, val_pre=None, cfg=None, tier="quick", timeout=180, desc="", readback=True, mem_pre=None):
    """build(xs) -> list of (request, value, holder tag, [effects on holder], readback spec or None)"""
    cfg = cfg or {}
    total = sum(SIZES[t] for t in symtags)

    def body(xs, m):
        try:
            mem, p = {}, 0
            for t in symtags:
                mem[t.split(".")[-1] if t.startswith("Program:") else t] = list(m[p:p + SIZES[t]])
                p += SIZES[t]
            rev = cfg.get("rev", 32)
            target = scen.std_project(mem=mem, revision_major=rev)
            old = {s.name: (s, list(s.mem)) for s in target.symbols}
            d = scen.make_driver(target, cs=cfg.get("cs", 4000), tags=TAGS if rev >= 21 else TAGS20, rev=rev, micro800=cfg.get("micro800", False))
            reqs = build(xs)
            res = d.write(*[(r[0], r[1]) for r in reqs])
            if len(reqs) == 1:
                if isinstance(res, list):
                    return "shape"
                res = [res]
            elif not isinstance(res, list) or len(res) != len(reqs):
                return "shape"
            for r, tag in zip(reqs, res):
                if not tag or tag.error is not None:
                    return f"{r[0]}:falsy:{tag.error}"
                if tag.tag != r[0].split("{")[0]:
                    return "name"
            if target.violations:
                return "protocol:" + target.violations[0]
            if d._sock.frame_errors:
                return "frame:" + d._sock.frame_errors[0]
            effects = {}
            for r in reqs:
                effects.setdefault(r[2].split(".")[-1] if r[2].startswith("Program:") else r[2], []).extend(r[3])
            for name, (s, before) in old.items():
                if name not in effects and name not in mem:
                    if s.mem != before:
                        return "memory:" + name
                    continue
                ok = expected_image(before, effects.get(name, []))(s.mem)
                if not ok:
                    return "memory:" + name
            want_writes = cfg.get("writes", len(reqs))
            if len(target.writes) != want_writes:
                return "applied %d times for %d requests" % (len(target.writes), want_writes)
            if cfg.get("expect_fragments") and not any(e[1] == 0x53 for e in target.log):
                return "not-fragmented"
            if readback and any(r[4] is not None for r in reqs):
                back = d.read(*[r[0] for r in reqs])
                back = back if isinstance(back, list) else [back]
                for r, tg in zip(reqs, back):
                    if not tg:
                        return "readback-falsy:" + r[0]
                    if r[4] is not None and not r[4](tg.value):
                        return "readback:" + r[0]
            return "ok"
        except Exception as e:
            return "exc:" + type(e).__name__ + ":" + str(e)[:80]

    vp = val_pre or (lambda xs: True)
    mp = mem_pre or (lambda m: True)
    REG.add(id, vec_fn(nvals, body, extra=(("m", bytes),)), pre=vec_pre(nvals, lambda xs, m: len(m) == total and vp(xs) and mp(m), extra=(("m", bytes),)),
            tier=tier, timeout=timeout, funcs=F, desc=desc or f"prior memory of {symtags} symbolic ({total} bytes), {nvals} symbolic values/indices; cfg={cfg}")


INTS = {"D1": (0xC4, 4, True), "I1": (0xC3, 2, True), "S1": (0xC2, 1, True), "L1": (0xC5, 8, True)}
dom = lambda v, n, s=True: R.in_domain(v, n, s)

# ---- atomic scalars, single-request path
for t, (code, n, sg) in INTS.items():
    add(f"atomic/{t}", [t], 1, lambda xs, t=t, n=n: [(t, xs[0], t, [("int", 0, n, True, xs[0])], lambda v, xs=xs: v == xs[0])], val_pre=lambda xs, n=n: dom(xs[0], n))
add("atomic/R1", ["R1"], 1, lambda xs: [("R1", mkfloat(xs[0], 4), "R1", [("float", 0, 4, xs[0])], lambda v, xs=xs: same_float(v, xs[0], 4))], val_pre=lambda xs: 0 <= xs[0] < 2**32)
add("atomic/LR1", ["LR1"], 1, lambda xs: [("LR1", mkfloat(xs[0], 8), "LR1", [("float", 0, 8, xs[0])], lambda v, xs=xs: same_float(v, xs[0], 8))], val_pre=lambda xs: 0 <= xs[0] < 2**64)
add("atomic/B1", ["B1"], 1, lambda xs: [("B1", xs[0] == 1, "B1", [("raw", 0, [255 * xs[0]])], lambda v, xs=xs: v == (xs[0] == 1))], val_pre=lambda xs: xs[0] in (0, 1))

# ---- multi-service path, duplicates last-wins is not asserted (only distinct targets)
add("multi/D1+I1+S1", ["D1", "I1", "S1"], 3, lambda xs: [("D1", xs[0], "D1", [("int", 0, 4, True, xs[0])], lambda v, xs=xs: v == xs[0]),
                                                         ("I1", xs[1], "I1", [("int", 0, 2, True, xs[1])], lambda v, xs=xs: v == xs[1]),
                                                         ("S1", xs[2], "S1", [("int", 0, 1, True, xs[2])], lambda v, xs=xs: v == xs[2])],
    val_pre=lambda xs: dom(xs[0], 4) and dom(xs[1], 2) and dom(xs[2], 1))
add("multi/rev20", ["D1", "L1"], 2, lambda xs: [("D1", xs[0], "D1", [("int", 0, 4, True, xs[0])], None), ("L1", xs[1], "L1", [("int", 0, 8, True, xs[1])], None)],
    val_pre=lambda xs: dom(xs[0], 4) and dom(xs[1], 8), cfg={"rev": 20})
add("multi/micro800", ["D1", "I1"], 2, lambda xs: [("D1", xs[0], "D1", [("int", 0, 4, True, xs[0])], None), ("I1", xs[1], "I1", [("int", 0, 2, True, xs[1])], None)],
    val_pre=lambda xs: dom(xs[0], 4) and dom(xs[1], 2), cfg={"rev": 12, "micro800": True})
add("multi/cs500", ["D1", "DA"], 3, lambda xs: [("D1", xs[0], "D1", [("int", 0, 4, True, xs[0])], None),
                                                  ("DA[2]{2}", [xs[1], xs[2]], "DA", [("int", 8, 4, True, xs[1]), ("int", 12, 4, True, xs[2])], None)],
    val_pre=lambda xs: all(dom(x, 4) for x in xs), cfg={"cs": 500})

# ---- arrays: element, slice with start index, whole, multi-dim
add("array/DA[i]", ["DA"], 2, lambda xs: [(f"DA[{xs[0]}]", xs[1], "DA", [("int", 4 * xs[0], 4, True, xs[1])], lambda v, xs=xs: v == xs[1])],
    val_pre=lambda xs: 0 <= xs[0] < 4 and dom(xs[1], 4))
add("array/DA[1]{2}", ["DA"], 2, lambda xs: [("DA[1]{2}", [xs[0], xs[1]], "DA", [("int", 4, 4, True, xs[0]), ("int", 8, 4, True, xs[1])], lambda v, xs=xs: v == [xs[0], xs[1]])],
    val_pre=lambda xs: dom(xs[0], 4) and dom(xs[1], 4))
add("array/DA{4}", ["DA"], 4, lambda xs: [("DA{4}", list(xs), "DA", [("int", 4 * i, 4, True, xs[i]) for i in range(4)], lambda v, xs=xs: v == list(xs))],
    val_pre=lambda xs: all(dom(x, 4) for x in xs))
add("array/DA{2}-long-list-truncated", ["DA"], 3, lambda xs: [("DA{2}", list(xs), "DA", [("int", 0, 4, True, xs[0]), ("int", 4, 4, True, xs[1])], None)],
    val_pre=lambda xs: all(dom(x, 4) for x in xs), desc="3 values for a {2} request: only the first 2 elements may change")
add("array/I2[i,j]", ["I2"], 3, lambda xs: [(f"I2[{xs[0]},{xs[1]}]", xs[2], "I2", [("int", 2 * (3 * xs[0] + xs[1]), 2, True, xs[2])], lambda v, xs=xs: v == xs[2])],
    val_pre=lambda xs: 0 <= xs[0] < 2 and 0 <= xs[1] < 3 and dom(xs[2], 2))
add("array/S3[1,0,1]", ["S3"], 1, lambda xs: [("S3[1,0,1]", xs[0], "S3", [("int", 5, 1, True, xs[0])], lambda v, xs=xs: v == xs[0])], val_pre=lambda xs: dom(xs[0], 1))

# ---- bits of integers (read-modify-write); several bits of one word in one call
for t, (code, n, sg) in INTS.items():
    nb = 8 * n
    for lo in range(0, nb, 16):
        hi = min(nb, lo + 16)
        add(f"bit/{t}.b/{lo}-{hi - 1}", [t], 2, lambda xs, t=t: [(BITREQ[t][concrete(xs[0])], xs[1] == 1, t, [("bit", xs[0] // 8, xs[0] % 8, xs[1] == 1)], None)],
            val_pre=lambda xs, lo=lo, hi=hi: lo <= xs[0] < hi and xs[1] in (0, 1), timeout=300,
            desc=f"{t}: prior word symbolic, bit number symbolic {lo}..{hi - 1}, value symbolic; single-request path", cfg={"writes": 1})
add("bit/D1-three-bits-one-call", ["D1"], 3, lambda xs: [("D1.0", xs[0] == 1, "D1", [("bit", 0, 0, xs[0] == 1)], None), ("D1.9", xs[1] == 1, "D1", [("bit", 1, 1, xs[1] == 1)], None),
                                                        ("D1.31", xs[2] == 1, "D1", [("bit", 3, 7, xs[2] == 1)], None)],
    val_pre=lambda xs: all(x in (0, 1) for x in xs), cfg={"writes": 1}, desc="three bits of one DINT merged into one read-modify-write", timeout=300)
add("bit/mixed-words-and-values", ["D1", "I1", "S1"], 3, lambda xs: [("D1.4", xs[0] == 1, "D1", [("bit", 0, 4, xs[0] == 1)], None), ("I1.15", xs[1] == 1, "I1", [("bit", 1, 7, xs[1] == 1)], None),
                                                                     ("S1", xs[2], "S1", [("int", 0, 1, True, xs[2])], None)],
    val_pre=lambda xs: xs[0] in (0, 1) and xs[1] in (0, 1) and dom(xs[2], 1), cfg={"writes": 3}, timeout=300)
add("bit/DA[2].7", ["DA"], 1, lambda xs: [("DA[2].7", xs[0] == 1, "DA", [("bit", 8, 7, xs[0] == 1)], lambda v, xs=xs: v == (xs[0] == 1))], val_pre=lambda xs: xs[0] in (0, 1), cfg={"writes": 1})
add("bit/U1.a.b", ["U1"], 2, lambda xs: [(BITREQ["U1.a"][concrete(xs[0])], xs[1] == 1, "U1", [("bit", xs[0] // 8, xs[0] % 8, xs[1] == 1)], None)],
    val_pre=lambda xs: 0 <= xs[0] < 32 and xs[1] in (0, 1), cfg={"writes": 1}, timeout=300)


# ---- BOOL arrays: whole aligned DWORDs
def _dword_effects(off, bools):
    return [("int", off + 4 * k, 4, False, sum((1 if bools[32 * k + i] else 0) * (1 << i) for i in range(32))) for k in range(len(bools) // 32)]


def _add_boolarray(id, req, off, nbools, nsym, tier="quick"):
    def build(xs):
        bools = [(xs[i % nsym] == 1) if (i % 5 == 0) else (i % 3 == 0) for i in range(nbools)]
        return [(req, bools, "BA", _dword_effects(off, bools), None)]
    add(id, ["BA"], nsym, build, val_pre=lambda xs: all(x in (0, 1) for x in xs), tier=tier, timeout=300,
        desc=f"{nbools} bools ({nsym} symbolic, spread over the words), prior memory symbolic: only the addressed DWORDs change")


BAREQ = [f"BA[{i}]" for i in range(64)]
for lo in (0, 16, 32, 48):
    add(f"boolarray/BA[i]-single-element/{lo}-{lo + 15}", ["BA"], 2,
        lambda xs: [(BAREQ[concrete(xs[0])], xs[1] == 1, "BA", [("bit", 4 * (xs[0] // 32) + (xs[0] % 32) // 8, xs[0] % 8, xs[1] == 1)], None)],
        val_pre=lambda xs, lo=lo: lo <= xs[0] < lo + 16 and xs[1] in (0, 1), cfg={"writes": 1}, timeout=300,
        desc=f"one BOOL-array element, index symbolic {lo}..{lo + 15}, value and prior DWORDs symbolic; single-request path")
    add(f"boolarray/BA[i]+D1-multi-path/{lo}-{lo + 15}", ["BA", "D1"], 3,
        lambda xs: [("D1", xs[2], "D1", [("int", 0, 4, True, xs[2])], None),
                    (BAREQ[concrete(xs[0])], xs[1] == 1, "BA", [("bit", 4 * (xs[0] // 32) + (xs[0] % 32) // 8, xs[0] % 8, xs[1] == 1)], None)],
        val_pre=lambda xs, lo=lo: lo <= xs[0] < lo + 16 and xs[1] in (0, 1) and dom(xs[2], 4), cfg={"writes": 2}, timeout=300,
        desc=f"one BOOL-array element (index symbolic {lo}..{lo + 15}) together with a value write: multi-request path")
add("boolarray/three-elements-one-call", ["BA"], 3,
    lambda xs: [("BA[33]", xs[0] == 1, "BA", [("bit", 4, 1, xs[0] == 1)], None), ("BA[34]", xs[1] == 1, "BA", [("bit", 4, 2, xs[1] == 1)], None),
                ("BA[40]", xs[2] == 1, "BA", [("bit", 5, 0, xs[2] == 1)], None), ("BA[2]", True, "BA", [("bit", 0, 2, True)], None)],
    val_pre=lambda xs: all(x in (0, 1) for x in xs), cfg={"writes": 2}, timeout=300,
    desc="four elements in two DWORDs in one call: merged per DWORD into read-modify-write requests")
_add_boolarray("boolarray/BA[0]{32}", "BA[0]{32}", 0, 32, 3)
_add_boolarray("boolarray/BA[32]{32}", "BA[32]{32}", 4, 32, 3)
_add_boolarray("boolarray/BA{64}", "BA{64}", 0, 64, 4)

# ---- structures and members
add("struct/U1-dict", ["U1"], 6, lambda xs: [("U1", {"a": xs[0], "b0": xs[1] == 1, "b1": xs[2] == 1, "arr": [xs[3], xs[4]], "r": mkfloat(xs[5], 4)}, "U1",
                                              [("int", 0, 4, True, xs[0]), ("bit", 4, 0, xs[1] == 1), ("bit", 4, 1, xs[2] == 1), ("int", 6, 2, True, xs[3]),
                                               ("int", 8, 2, True, xs[4]), ("float", 12, 4, xs[5])], None)],
    val_pre=lambda xs: dom(xs[0], 4) and xs[1] in (0, 1) and xs[2] in (0, 1) and dom(xs[3], 2) and dom(xs[4], 2) and 0 <= xs[5] < 2**32,
    mem_pre=lambda m: m[4] < 4 and m[5] == 0 and m[10] == 0 and m[11] == 0, timeout=300,
    desc="every visible member symbolic; prior image symbolic with zero padding (a whole-structure write rewrites the padding and the unused host bits)")
add("struct/U1-members", ["U1"], 3, lambda xs: [("U1.a", xs[0], "U1", [("int", 0, 4, True, xs[0])], None), ("U1.arr[1]", xs[1], "U1", [("int", 8, 2, True, xs[1])], None),
                                                 ("U1.b1", xs[2] == 1, "U1", [("bit", 4, 1, xs[2] == 1)], None)],
    val_pre=lambda xs: dom(xs[0], 4) and dom(xs[1], 2) and xs[2] in (0, 1), timeout=300)
add("struct/UA[1].a+O1.w", ["UA", "O1"], 2, lambda xs: [("UA[1].a", xs[0], "UA", [("int", 16, 4, True, xs[0])], None), ("O1.w", xs[1], "O1", [("int", 18, 2, True, xs[1])], None)],
    val_pre=lambda xs: dom(xs[0], 4) and dom(xs[1], 2), timeout=300)
add("program/PD", ["Program:Main.PD", "D1"], 2, lambda xs: [("Program:Main.PD", xs[0], "Program:Main.PD", [("int", 0, 4, True, xs[0])], lambda v, xs=xs: v == xs[0]),
                                                          ("D1", xs[1], "D1", [("int", 0, 4, True, xs[1])], None)], val_pre=lambda xs: dom(xs[0], 4) and dom(xs[1], 4))


# ---- strings: shorter / equal to capacity
def _add_string(ln):
    def build(xs):
        cps = list(xs[:ln])
        return [("ST", mkstr(cps), "ST", [("int", 0, 4, True, ln), ("raw", 4, cps + [0] * (8 - ln))], lambda v, cps=cps: len(v) == len(cps) and all(ord(v[i]) == cps[i] for i in range(len(cps))))]
    add(f"string/ST/len{ln}", ["ST"], max(ln, 1), build, val_pre=lambda xs: all(0 <= x < 256 for x in xs), timeout=300,
        desc=f"{ln} symbolic Latin-1 characters into an 8-character string: LEN, characters and zero padding")


for ln in (0, 1, 3, 8):
    _add_string(ln)


def _add_odd_string(tag, cap, ln):
    def build(xs):
        cps = list(xs[:ln])
        return [(tag, mkstr(cps), tag, [("int", 0, 4, True, ln), ("raw", 4, cps + [0] * (8 - ln))], lambda v, cps=cps: len(v) == len(cps) and all(ord(v[i]) == cps[i] for i in range(len(cps))))]
    add(f"string/{tag}/len{ln}", [tag], max(ln, 1), build, val_pre=lambda xs: all(0 <= x < 256 for x in xs), timeout=300,
        desc=f"{ln} symbolic characters into a {cap}-character string whose structure is padded to 12 bytes")


_add_odd_string("S5", 5, 5)
_add_odd_string("S5", 5, 2)
_add_odd_string("S7", 7, 7)


# ---- data larger than the connection: fragmented write
def add_big(id, n_elems, cs, nsym, tier="quick", timeout=300):
    from vlib.ref.logix import Symbol

    def body(xs, m):
        try:
            total = 4 * n_elems
            target = scen.std_project()
            big = Symbol("BIG", 40, 0xC4, (n_elems,), mem=[(11 * i + 1) % 256 for i in range(total)])
            target.symbols.append(big)
            tags = dict(TAGS)
            from pycomm3.cip.data_types import DINT, Array
            tags["BIG"] = dict(TAGS["DA"], tag_name="BIG", instance_id=40, dimensions=[n_elems, 0, 0], type_class=Array(n_elems, DINT))
            d = scen.make_driver(target, cs=cs, tags=tags)
            vals = [(5 * i) % 1000 - 500 for i in range(n_elems)]
            seg = max(1, (cs - 40) // 4)
            spots = sorted({0, n_elems - 1} | {min(n_elems - 1, k * seg + dj) for k in range(1, n_elems // seg + 2) for dj in (-1, 0)})[:nsym]
            for j, sp in enumerate(spots):
                vals[sp] = xs[j]
            tg = d.write((f"BIG{{{n_elems}}}", vals), ("D1", 5))
            if not tg[0] or not tg[1]:
                return "falsy:%s/%s" % (tg[0].error, tg[1].error)
            if target.violations:
                return "protocol:" + target.violations[0]
            ok = True
            for i in range(n_elems):
                ok = band(ok, R.eq_le(big.mem[4 * i:4 * i + 4], True, vals[i]))
            if not ok:
                return "memory"
            frs = sorted((w[1], len(w[2])) for w in target.writes if w[0] == "BIG")
            pos = 0
            for off, ln in frs:
                if off != pos:
                    return "fragments-not-contiguous"
                pos += ln
            if pos != total or len(frs) < 2:
                return "fragments-do-not-tile"
            return "ok"
        except Exception as e:
            return "exc:" + type(e).__name__ + ":" + str(e)[:80]
    REG.add(id, vec_fn(nsym, body, extra=(("m", bytes),)), pre=vec_pre(nsym, lambda xs, m: len(m) == 0 and all(dom(x, 4) for x in xs), extra=(("m", bytes),)),
            tier=tier, timeout=timeout, funcs=F, desc=f"DINT[{n_elems}] at connection size {cs}: {nsym} symbolic values at the fragment boundaries; fragments must tile the value")


add_big("fragmented/DINT[300]@500", 300, 500, 6)
add_big("fragmented/DINT[130]@500-just-over", 130, 500, 4)
add_big("fragmented/DINT[1100]@4000", 1100, 4000, 4, tier="thorough", timeout=900)



def _add_string_array_element(idx, ln):
    def build(xs):
        cps = list(xs[:ln])
        return [(f"S5A[{idx}]", mkstr(cps), "S5A", [("int", 12 * idx, 4, True, ln), ("raw", 12 * idx + 4, cps + [0] * (8 - ln))],
                 lambda v, cps=cps: len(v) == len(cps) and all(ord(v[i]) == cps[i] for i in range(len(cps))))]
    add(f"string/S5A[{idx}]/len{ln}", ["S5A"], ln, build, val_pre=lambda xs: all(0 <= x < 256 for x in xs), timeout=300,
        desc=f"one element of an array of strings written from a str of {ln} symbolic characters: only that element changes")


_add_string_array_element(1, 3)
_add_string_array_element(2, 5)

# ---- deeper shapes (added in the second pass): nested structure dicts, list of structure dicts
add("struct/O1-nested-dict", ["O1"], 5, lambda xs: [("O1", {"inner": {"a": xs[0], "b0": xs[1] == 1, "b1": False, "arr": [xs[2], 7], "r": mkfloat(xs[3], 4)}, "s": xs[4], "w": 9}, "O1",
                                                      [("int", 0, 4, True, xs[0]), ("bit", 4, 0, xs[1] == 1), ("bit", 4, 1, False), ("int", 6, 2, True, xs[2]), ("int", 8, 2, True, 7),
                                                       ("float", 12, 4, xs[3]), ("int", 16, 1, True, xs[4]), ("int", 18, 2, True, 9)], None)],
    val_pre=lambda xs: dom(xs[0], 4) and xs[1] in (0, 1) and dom(xs[2], 2) and 0 <= xs[3] < 2**32 and dom(xs[4], 1),
    mem_pre=lambda m: m[4] < 4 and m[5] == 0 and m[10] == 0 and m[11] == 0 and m[17] == 0, tier="quick", timeout=900,
    desc="nested structure written from a nested dict: every visible member of OUTER and of the nested UDT1, prior image symbolic with zero padding")
add("struct/UA{2}-list-of-dicts", ["UA"], 4, lambda xs: [("UA{2}", [{"a": xs[0], "b0": True, "b1": False, "arr": [xs[1], 1], "r": mkfloat(0x3F800000, 4)},
                                                                    {"a": xs[2], "b0": False, "b1": True, "arr": [2, xs[3]], "r": mkfloat(0, 4)}], "UA",
                                                          [("int", 0, 4, True, xs[0]), ("bit", 4, 0, True), ("bit", 4, 1, False), ("int", 6, 2, True, xs[1]), ("int", 8, 2, True, 1), ("float", 12, 4, 0x3F800000),
                                                           ("int", 16, 4, True, xs[2]), ("bit", 20, 0, False), ("bit", 20, 1, True), ("int", 22, 2, True, 2), ("int", 24, 2, True, xs[3]), ("float", 28, 4, 0)], None)],
    val_pre=lambda xs: dom(xs[0], 4) and dom(xs[1], 2) and dom(xs[2], 4) and dom(xs[3], 2),
    mem_pre=lambda m: all(m[k] == 0 for k in (4, 5, 10, 11, 20, 21, 26, 27)), tier="quick", timeout=900,
    desc="array of structures written from a list of dicts")
for ln in (0, 40, 82):
    def _mk82(ln):
        def build(xs):
            cps = [xs[0]] * ln
            return [("SS", mkstr(cps), "SS", [("int", 0, 4, True, ln), ("raw", 4, cps + [0] * (84 - ln))], None)]
        return build
    add(f"string/SS/len{ln}", ["SS"], 1, _mk82(ln), val_pre=lambda xs: 0 <= xs[0] < 256, tier="quick", timeout=900,
        desc=f"82-character STRING: {ln} characters (one symbolic code point repeated), LEN, characters and zero padding up to the 88-byte structure")

from harness import bits_common
bits_common.add_bitarray_obligations(REG, "C02")
