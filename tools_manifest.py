#!/usr/bin/env python3
"""Regenerates MANIFEST.json from the table below (kept in one place so it stays valid)."""
import json, os
ROOT = os.path.dirname(os.path.abspath(__file__))
PROPS = [json.loads(l) for l in open(os.path.join(ROOT, "properties.jsonl"))]

CLAIMED = {
    "C06": dict(
        text="Bounded symbolic checking (CrossHair+z3 over the real encode/decode code): every obligation is decided for ALL values of its "
             "symbolic arguments (full-width integers, all IEEE bit patterns, all strings/arrays up to the stated length, all bit lists) or "
             "returns a counterexample that is replayed natively. Not an unbounded proof: lengths/depths are bounded.",
        design="4/C06", technique="symbolic execution of the real codecs (CrossHair/z3) + AST->z3 validity queries for bit strings",
        note="Trusts CrossHair 0.0.110, z3, the environment stubs of vlib/chplugin.py (self-tested on every run), the float-token model "
             "(C float conversion not modelled) and vlib/ref/codec.py."),
    "C07": dict(
        text="Bounded symbolic differential against an independent reference codec: for every exported elementary/string type all values and all "
             "byte patterns of the type's width, generated struct/array/template layouts with symbolic leaves, and every CIP type code of the "
             "reference table; counterexamples replayed natively.",
        design="4/C07", technique="symbolic execution of the real codecs vs an arithmetic reference layout (CrossHair/z3); AST->z3 for bit order",
        note="Oracle: vlib/ref/codec.py (width/signedness per type code, little-endian, LSB-first), written from the CIP spec, shares no code with pycomm3. Float tokens: IEEE bits<->float conversion by C struct is trusted."),
    "C08": dict(
        text="Bounded symbolic checking of failure behaviour: unbounded out-of-range integers, every truncation point of symbolic valid encodings, "
             "arbitrary symbolic byte strings (<= 6/9 bytes) into every decoder, and a finite class list of wrong Python types; verdict must be "
             "DataError (BufferEmptyError only at a value start), never a value, foreign exception or hang.",
        design="4/C08", technique="symbolic execution of the real codecs (CrossHair/z3) with a read-counting stream model for termination",
        note="Termination is bounded by the stream model's read counter and the per-path timeout; wrong-type cases are a finite concrete list."),
    "C09": dict(
        text="Bounded symbolic checking: every emitted path form (logical segments of every type, request_path, EPATH options, symbolic segments, "
             "port segments, tag request paths with 0-3 indices per level and symbol-instance addressing) is parsed back by an independent strict "
             "EPATH parser for ALL 32-bit values of the numbers involved.",
        design="4/C09", technique="symbolic execution of the real path encoders (CrossHair/z3) against an independent EPATH parser",
        note="Oracle: vlib/ref/epath.py from CIP Vol 1 C-1.4. Names come from templates / free ASCII strings <= 6 (12) chars; decimal index rendering modelled with fresh digit variables."),
    "C01": dict(
        text="Bounded symbolic scenario checking: the real LogixDriver.read runs against an independent reference controller whose memory image is "
             "symbolic; for each request form (atomic, [i], [i,j,k], {n}, members, .bit, BOOL arrays, strings, program scope, duplicates, multi-service, "
             "fragmented transfers at connection size 500/4000, rev 20 / >= 21 / Micro800) the solver decides value/type equality for ALL memory contents and indices.",
        design="4/C01", technique="symbolic execution of the real driver against a reference target (CrossHair/z3); AST->z3 for bit-string kernels",
        note="Oracles: vlib/ref/logix.py (controller), vlib/ref/values.py (memory interpretation), vlib/ref/eip.py (frame parser). Tag definitions come from pycomm3's own upload (checked by C05). Request shapes are an enumerated outer bound."),
    "C02": dict(
        text="Bounded symbolic scenario checking: the real LogixDriver.write runs against the reference controller with symbolic prior memory and symbolic "
             "values; after a truthy write the WHOLE memory image must equal the reference effect (addressed range encoded, all other bytes unchanged), each "
             "request applied exactly once, masks/lengths exact (enforced by the target), fragments tile the value, read-back returns the value.",
        design="4/C02", technique="symbolic execution of the real driver against a reference target (CrossHair/z3)",
        note="Same oracles as C01; the reference controller rejects trailing bytes, wrong mask widths and out-of-range fragments and logs every applied write."),
    "C15": dict(
        text="Bounded symbolic checking of parse_connection_path + route encoding on grammar templates: symbolic separators, slots 0..300, TCP ports 0..70000, "
             "port numbers, one symbolic IP octet, every alias, single-character alias edits; result compared with a reference port-segment encoder; malformed inputs must raise RequestError/DataError.",
        design="4/C15", technique="symbolic execution of the real parser/encoder on grammar templates (CrossHair/z3)",
        note="Strings come from templates with symbolic pieces, not free-form strings; vlib/ref/epath.py is the oracle for route bytes."),
    "C19": dict(
        text="Bounded symbolic checking of every EnumMap table discovered in the package: all 2^len letter casings of every member name through item access, get and membership "
             "(symbolic casing mask), reverse lookups of every code, data-type codes, all 256 status bytes and every (status, extended status) pair.",
        design="4/C19", technique="symbolic execution of the real MapMeta lookups with a symbolic casing mask (CrossHair/z3) + exhaustive reverse enumeration",
        note="ASCII str.lower model and linear-scan dict model are part of the trusted base; member names are checked to be ASCII."),
    "C03": dict(
        text="Bounded symbolic scenario checking: request lists of 1..3 (4) reads / 1..2 (3) writes where every slot is a symbolic choice among 10/11 valid and invalid "
             "request kinds (enumerated by the engine, duplicates included) with symbolic memory/values: result shape, order, names, falsy-with-error for invalid requests, "
             "unchanged outcome of the valid ones (value equality against the reference controller's memory), no exception.",
        design="4/C03", technique="symbolic execution of the real driver against a reference target with a symbolic choice vector (CrossHair/z3)",
        note="Request kinds are a fixed table; list length <= 3/4."),
    "C04": dict(
        text="Bounded symbolic checking with SYMBOLIC SIZES: the real request builders run with value lengths (symbolic-length bytes), structure sizes, element counts and the "
             "connection size (64..4000) as symbolic variables; every returned packet is framed by the real build_request and measured; the reply size of every read is "
             "computed by the reference model. Plus driver-level fragmented reads with a symbolic target fragment capacity and Forward-Open size negotiation.",
        design="4/C04", technique="symbolic execution of the real request builders with symbolic sizes (CrossHair/z3)",
        note="'Connection size' read leniently (CIP message without the sequence count). Fragment loops beyond the driver-level scenarios (<= 4 fragments) are not unrolled further."),
    "C12": dict(
        text="Bounded symbolic checking of Socket.receive/send: the real source is interpreted (AST->z3, path merging) with recv chunks as z3 sequences of symbolic length 0..256 "
             "and content, empty chunks (peer closed) and socket errors at any call; unwinding bound 3+3 (4+4) recv calls, 4 (6) send calls; complemented by CrossHair runs over "
             "small frames cut at symbolic positions and one-byte chunking.",
        design="4/C12", technique="AST->z3 symbolic interpretation of the real loops with unwinding assumptions (z3 sequences) + CrossHair",
        note="recv/send stubs are the environment contract; counterexamples are replayed on the real Socket with a scripted raw socket."),
    "C17": dict(
        text="Inductive step lemma for the real cycle() loop body (AST->z3): for every counter state in the invariant the yielded count fits 16 bits, the invariant is preserved and the next "
             "count differs (covers histories of any length), base case, native two-period cross-check; plus driver scenarios (reads, writes, fragmented, generic, upload) positioned "
             "0..6 draws before the wrap against a reference controller that rejects repeated counts.",
        design="4/C17", technique="inductive step over the real generator body (AST->z3) + symbolic execution of driver scenarios across the wrap (CrossHair/z3)",
        note="Generator shape (single yield in while True) is checked on the AST; a call constructing >= 65534 packets between two sends is outside the claim."),
    "C05": dict(
        text="Bounded symbolic scenario checking: the real get_tag_list (and the upload inside open()) runs against the reference controller; symbol metadata (instance id, dimensions, "
             "external access, base bit), template member offsets / bit numbers / array length / structure size, the pagination points of the symbol list and the fragment size of "
             "template reads are symbolic; the resulting tag database is compared with an expectation computed independently from the controller's symbol table.",
        design="4/C05, 8", technique="symbolic execution of the real upload code against a reference target (CrossHair/z3)",
        note="Project shapes (symbol kinds, template nesting, firmware generations) are an enumerated outer bound; one metadata field group symbolic per obligation."),
    "C10": dict(
        text="Bounded model checking of call histories: 1-2 (thorough 3) operations with symbolic operation codes, a symbolic single fault position (k-th socket I/O raises / peer vanishes), "
             "symbolic target policy (4), final close and reopen, on the real driver against the reference controller; plus one-step obligations from the constructed connected state.",
        design="4/C10, 8", technique="symbolic execution of bounded call histories with symbolic fault position and policy (CrossHair/z3)",
        note="Single fault per history; sessions end with their TCP connection in the model; when no fault occurred the client must have released session/connection itself."),
    "C11": dict(
        text="Bounded symbolic checking: build_request of every packet class with symbolic message bytes (lengths 0..64), session handle, sequence count and connection id parsed by a strict "
             "independent parser; a whole open-use-close session with a symbolic target-chosen session handle; the same parser runs inside every driver scenario of the other properties.",
        design="4/C11", technique="symbolic execution of the real frame builders against a strict reference parser (CrossHair/z3)",
        note="Oracle vlib/ref/eip.py; discover()'s UDP handling is outside (only its request frame is checked)."),
    "C13": dict(
        text="Bounded symbolic checking of reply classification: per request kind the reply-service byte (0..255), general status (0..255), 0-2 extended status words, encapsulation status "
             "symbolic; multi-service status vectors; every truncation point and one symbolic byte at every CIP-part position of valid replies at driver level.",
        design="4/C13", technique="symbolic execution of the real response parsers and driver calls on symbolic reply bytes (CrossHair/z3)",
        note="Status 6 outside the required set {0x52,0x53,0x55} is accepted either way within the liberal set; one corruption at a time."),
    "C14": dict(
        text="Bounded symbolic scenario checking: generic_message in connected / UCMM / Unconnected-Send mode with symbolic service, class/instance/attribute (32 bit, ints and bytes), request "
             "data (0..5 bytes), reply status and data; the reference controller's router log must show the request verbatim; route forms; helpers incl. a 64-bit symbolic clock value.",
        design="4/C14", technique="symbolic execution of the real driver against a reference target's router log (CrossHair/z3)",
        note="Known finding C14-ucmm-default-route is witnessed, not suppressed elsewhere; datetime rendering stubbed."),
    "C16": dict(
        text="Bounded symbolic checking: identity objects built from symbolic fields (every vendor id of the table via a symbolic index, ids above the table symbolic, product type/code, revision, "
             "status, 32-bit serial, 0-4 name characters, IP octets, state) through the real decoders, ListIdentity packet and the three driver entry points; truncated replies.",
        design="4/C16", technique="symbolic execution of the real identity decoders and driver entry points (CrossHair/z3)",
        note="Vendor / product-type tables are data; one field group symbolic per obligation."),
    "C18": dict(
        text="Bounded symbolic scenario checking of the real SLCDriver against a reference data table (PCCC typed logical read / masked write): file numbers, elements, bits, B-file bit numbers, "
             "counts, letter case, values and prior words symbolic; write-then-read, only-the-addressed-bit, exact PCCC request fields, rejection of out-of-range / unsupported addresses.",
        design="4/C18", technique="symbolic execution of the real SLC driver against a reference data table (CrossHair/z3)",
        note="Address numbers are enumerated by the engine over boundary ranges in the quick tier (all values in the thorough tier)."),
}
NA_REASON = "check not landed yet in this revision of /verif (work in progress; see DESIGN.md section 4 for the planned obligations)"


def main():
    checks = []
    for p in PROPS:
        pid = p["id"]
        if pid not in CLAIMED:
            continue
        c = CLAIMED[pid]
        checks.append({
            "property_id": pid,
            "quick_cmd": f"./check {pid} --tier quick",
            "thorough_cmd": f"./check {pid} --tier thorough",
            "evidence_file": f"/verif/evidence/{pid}.json",
            "replay_cmd_template": "./check replay {path}",
            "engine": "vlib",
            "level_claimed": {"category": "model_checking", "text": c["text"], "design_ref": c["design"]},
            "level_note": c["note"],
            "technique": c["technique"],
        })
    na = [{"property_id": p["id"], "reason": NA.get(p["id"], NA_REASON)} for p in PROPS if p["id"] not in CLAIMED]
    m = {
        "version": 1,
        "setup_cmd": "sh /verif/setup.sh",
        "hooks": {"guard": "PYCOMM3_VERIF", "enable": "no source hooks: all stubs are applied from outside (CrossHair patch registry / module-global rebinding)",
                  "baseline_off_cmd": "cd /repo && /venv/bin/python -m pytest -ra -q -p no:cacheprovider --timeout=900 --continue-on-collection-errors",
                  "source_commits": [], "add_only": True},
        "engines": [{"name": "vlib", "path": "/verif/vlib", "serves_properties": sorted(CLAIMED),
                     "kind_free_text": "Engine A: CrossHair 0.0.110 symbolic execution of the live pycomm3 modules with z3; Engine B: AST->z3 path-merging interpreter (vlib/bvsym.py) for kernels that fork per bit or slice by symbolic lengths"}],
        "checks": checks,
        "notes": "Solver-based checking of the real code; see DESIGN.md. Exit 0 held / 1 VIOLATION (replayed) / 2 harness error.",
        "not_applicable": na,
    }
    json.dump(m, open(os.path.join(ROOT, "MANIFEST.json"), "w"), indent=1)
    import jsonschema
    jsonschema.validate(m, json.load(open("/root/.vp/MANIFEST.schema.json")))
    print("MANIFEST.json written:", len(checks), "checks,", len(na), "not applicable")


NA = {}
if __name__ == "__main__":
    main()
