#!/bin/sh
# usage: tools_seed.sh <patch file> <prop> [more props...]   -- applies a seeded change to /repo, runs the checks, reverts
PATCH="$1"; shift
cd /repo || exit 2
git diff --quiet || { echo "repo dirty"; exit 2; }
git apply "$PATCH" || { echo "patch does not apply"; exit 2; }
for P in "$@"; do
  (cd /verif && ./check "$P" --no-evidence ${SEED_ONLY:+--only "$SEED_ONLY"} 2>&1 | grep -c "^VIOLATION" | sed "s/^/$P violations: /"; cd /verif && ./check "$P" --no-evidence ${SEED_ONLY:+--only "$SEED_ONLY"} 2>&1 | tail -1)
done
git checkout -- . 
