#!/bin/sh
# usage: tools_seed.sh <patch file> <prop> [more props...]   -- applies a seeded change to /repo, runs the checks, reverts
PATCH="$1"; shift
cd /repo || exit 2
git diff --quiet || { echo "repo dirty"; exit 2; }
git apply "$PATCH" || { echo "patch does not apply"; exit 2; }
for P in "$@"; do
  OUT=$(cd /verif && ./check "$P" --no-evidence 2>&1)
  echo "$OUT" | grep "counterexample" | head -3 | cut -c1-220
  echo "$P: $(echo "$OUT" | grep -c '^VIOLATION') violations; $(echo "$OUT" | tail -1)"
done
git checkout -- .
