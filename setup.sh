#!/bin/sh
# Offline setup: overlay venv on /venv with crosshair-tool (+ z3-solver) and jsonschema
# from the local wheelhouse.  Idempotent; nothing is fetched from a network.
set -e
cd "$(dirname "$0")"
V=/verif/.venv
if [ ! -x "$V/bin/python" ] || ! "$V/bin/python" -c "import crosshair, z3, jsonschema" 2>/dev/null; then
    rm -rf "$V"
    /venv/bin/python -m venv "$V"
    SP=$("$V/bin/python" -c "import sysconfig; print(sysconfig.get_paths()['purelib'])")
    printf '/venv/lib/python3.12/site-packages\n/repo\n' > "$SP/_overlay.pth"
    PIP_NO_INDEX=1 "$V/bin/pip" install -q --no-index --find-links /opt/veriftools/wheels crosshair-tool jsonschema
fi
"$V/bin/python" -c "import crosshair, z3, jsonschema, pycomm3; print('verif venv ok: crosshair', crosshair.__version__, 'z3', z3.get_version_string())"
