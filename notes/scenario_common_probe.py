import shim
import logging
logging.disable(logging.CRITICAL)
from pycomm3 import LogixDriver
from pycomm3.cip.data_types import DINT, INT, Array
from pycomm3.custom_types import StructTag

def le(v, n):
    return bytes([(v >> (8 * i)) & 0xFF for i in range(n)])

class FakeSock:
    def __init__(self, handler):
        self.handler = handler
        self.sent = []
        self._reply = None
    def send(self, msg, timeout=0):
        self.sent.append(msg)
        self._reply = self.handler(msg)
        return len(msg)
    def receive(self, timeout=0):
        return self._reply
    def close(self):
        pass

def make_driver(handler, cs=4000):
    d = LogixDriver('1.2.3.4', init_tags=False)
    d._sock = FakeSock(handler)
    d._session = 0x11223344
    d._connection_opened = True
    d._target_cid = b'\x01\x02\x03\x04'
    d._target_is_connected = True
    d._cfg['connection_size'] = cs
    d._info = {'revision': {'major': 30, 'minor': 1}}
    return d

def unit_reply(seq, payload, session=0x11223344, cid=b'\x27\x04\x19\x71'):
    cpf = b'\x00\x00\x00\x00' + b'\x00\x00' + b'\x02\x00' + b'\xa1\x00\x04\x00' + cid + b'\xb1\x00' + le(len(payload) + 2, 2) + seq + payload
    return b'\x70\x00' + le(len(cpf), 2) + le(session, 4) + b'\x00\x00\x00\x00' + b'_pycomm_' + b'\x00\x00\x00\x00' + cpf

def mk_atomic(name, tname, tcls, iid, dims=None):
    dim = len(dims) if dims else 0
    dimensions = (list(dims) + [0, 0, 0])[:3] if dims else [0, 0, 0]
    tc = tcls
    if dims:
        n = 1
        for x in dims: n *= x
        tc = Array(n, tcls)
    return {'tag_name': name, 'dim': dim, 'alias': False, 'instance_id': iid, 'symbol_address': 0,
            'symbol_object_address': 0, 'software_control': 0, 'external_access': 'Read/Write',
            'dimensions': dimensions, 'data_type': tname, 'data_type_name': tname, 'type_class': tc,
            'tag_type': 'atomic'}

def mk_struct_tag(name, size, iid, handle=0x1234):
    tc = StructTag(bit_members={}, private_members=set(), struct_size=size)
    dtp = {'name': 'U', 'internal_tags': {}, 'attributes': [], 'template': {'structure_size': size, 'structure_handle': handle, 'member_count': 0, 'object_definition_size': 10}, 'type_class': tc}
    return {'tag_name': name, 'dim': 0, 'alias': False, 'instance_id': iid, 'symbol_address': 0,
            'symbol_object_address': 0, 'software_control': 0, 'external_access': 'Read/Write',
            'dimensions': [0, 0, 0], 'data_type': dtp, 'data_type_name': 'U', 'type_class': tc,
            'tag_type': 'struct'}
