import shim
from pycomm3.cip.data_types import *
from pycomm3.custom_types import StructTag, FixedSizeString

UDT = StructTag(
    (DINT("a"), 0), (SINT("ZZZZZZZZZZhost"), 4), (INT("c"), 6),
    bit_members={"b0": (4, 0), "b1": (4, 1)}, private_members={"ZZZZZZZZZZhost"}, struct_size=8)

def le(v, n):
    v = v % (1 << (8 * n))
    return bytes([(v >> (8 * i)) & 0xFF for i in range(n)])

def dec_udt(b: bytes) -> dict:
    """
    pre: len(b) == 8
    post: _ == {"a": (b[0] + 256*b[1] + 65536*b[2] + 16777216*b[3]) - (2**32 if b[3] >= 128 else 0), "c": (b[6] + 256*b[7]) - (65536 if b[7] >= 128 else 0), "b0": b[4] % 2 == 1, "b1": (b[4] // 2) % 2 == 1}
    """
    return UDT.decode(b)

def enc_udt(a: int, c: int, b0: bool, b1: bool) -> bytes:
    """
    pre: -2**31 <= a < 2**31 and -2**15 <= c < 2**15
    post: bytes(_) == le(a, 4) + bytes([(1 if b0 else 0) + (2 if b1 else 0), 0]) + le(c, 2)
    """
    return UDT.encode({"a": a, "c": c, "b0": b0, "b1": b1})

S8 = FixedSizeString(8)
def rt_fss(s: str) -> str:
    """
    pre: len(s) <= 8 and all(ord(ch) < 256 for ch in s)
    post: _ == s
    """
    return S8.decode(S8.encode(s))

def fss_layout(s: str) -> bytes:
    """
    pre: len(s) <= 3 and all(ord(ch) < 256 for ch in s)
    post: len(_) == 12 and _[0] == len(s) and _[1] == 0 and all(_[4 + i] == (ord(s[i]) if i < len(s) else 0) for i in range(8))
    """
    return S8.encode(s)
