"""Prototype reference Logix target (independent of pycomm3), enough for open()/get_tag_list()/read."""

def le(v, n):
    return bytes([(v >> (8 * i)) & 0xFF for i in range(n)])

def u(b, off, n):
    v = 0
    for i in range(n):
        v += b[off + i] << (8 * i)
    return v


class Template:
    def __init__(self, name, iid, handle, size, members):
        # members: (name, type_code, info, offset); type_code may be 0x8000|iid for nested structs
        self.name, self.iid, self.handle, self.size, self.members = name, iid, handle, size, members

    def definition(self):
        info = b"".join(le(i, 2) + le(t, 2) + le(o, 4) for (_, t, i, o) in self.members)
        names = (self.name + ";n").encode() + b"\x00" + b"".join(n.encode() + b"\x00" for (n, _, _, _) in self.members)
        raw = info + names
        # object definition size in 32-bit words such that (words*4 - 23) + 2 >= len(raw): pycomm3 reads words*4-21... (Logix manual: size*4 - 23 bytes)
        return raw


class Symbol:
    def __init__(self, iid, name, symbol_type, dims=(0, 0, 0), access=0, software_control=1 << 26):
        self.iid, self.name, self.symbol_type, self.dims, self.access, self.sc = iid, name, symbol_type, dims, access, software_control


class Target:
    def __init__(self, symbols, templates, programs=None, major=30, page_after=None, tmpl_frag=None,
                 large_fo=True, small_fo=True, session_ok=True, product_name="1756-L83E/B", fault_at=None):
        self.symbols = symbols                      # controller scope
        self.programs = programs or {}              # name -> [Symbol]
        self.templates = {t.iid: t for t in templates}
        self.major = major
        self.page_after = page_after                # symbolic: symbols per page
        self.tmpl_frag = tmpl_frag                  # symbolic: bytes per template fragment
        self.large_fo, self.small_fo, self.session_ok = large_fo, small_fo, session_ok
        self.product_name = product_name
        self.sessions = set()
        self.connections = {}                       # o->t cid -> size
        self.next_session = 0x0A0B0C0D
        self.log = []
        self.nsend = 0
        self.fault_at = fault_at
        self.errors = []

    # ---- encapsulation ----------------------------------------------------
    def handle(self, frame):
        cmd = u(frame, 0, 2)
        ln = u(frame, 2, 2)
        sess = u(frame, 4, 4)
        if ln != len(frame) - 24:
            self.errors.append("bad encap length")
        self.log.append(cmd)
        if cmd == 0x65:
            if not self.session_ok:
                return self.encap(0x65, 0, 1, frame[24:])
            s = self.next_session
            self.sessions.add(s)
            return self.encap(0x65, s, 0, frame[24:])
        if cmd == 0x66:
            self.sessions.discard(sess)
            for c in list(self.connections):
                del self.connections[c]
            return None
        if cmd == 0x63:
            return self.encap(0x63, 0, 0, self.list_identity_item())
        if sess not in self.sessions:
            if cmd == 0x70: self.errors.append("command without session")
            return self.encap(cmd, sess, 0x64, b"")
        if cmd == 0x6F:
            mr = frame[24 + 16:]
            rep = self.unconnected(mr)
            cpf = b"\x00\x00\x00\x00\x00\x00\x02\x00\x00\x00\x00\x00\xb2\x00" + le(len(rep), 2) + rep
            return self.encap(0x6F, sess, 0, cpf)
        if cmd == 0x70:
            cid = frame[24 + 12:24 + 16]
            if u(cid, 0, 4) not in self.connections:
                self.errors.append("connected message without connection")
            seq = frame[44:46]
            mr = frame[46:]
            if len(mr) + 2 > self.connections.get(u(cid, 0, 4), 0):
                self.errors.append("request larger than connection size")
            rep = self.message_router(mr, connected=True)
            cpf = b"\x00\x00\x00\x00\x00\x00\x02\x00\xa1\x00\x04\x00" + b"\x27\x04\x19\x71" + b"\xb1\x00" + le(len(rep) + 2, 2) + seq + rep
            return self.encap(0x70, sess, 0, cpf)
        return self.encap(cmd, sess, 1, b"")

    def encap(self, cmd, sess, status, data):
        return le(cmd, 2) + le(len(data), 2) + le(sess, 4) + le(status, 4) + b"_pycomm_" + le(0, 4) + data

    def identity_body(self):
        name = self.product_name.encode()
        return le(1, 2) + le(14, 2) + le(55, 2) + bytes([self.major, 11]) + b"\x60\x31" + le(0x12345678, 4) + bytes([len(name)]) + name

    def list_identity_item(self):
        body = le(1, 2) + le(2, 2) + le(0xAF12, 2) + bytes([10, 0, 0, 1]) + bytes(8) + self.identity_body() + b"\x03"
        return le(1, 2) + le(0x0C, 2) + le(len(body), 2) + body

    # ---- message router ----------------------------------------------------
    def parse_path(self, mr):
        words = mr[1]
        p = mr[2:2 + 2 * words]
        segs = []
        i = 0
        while i < len(p):
            t = p[i]
            if t == 0x91:
                n = p[i + 1]
                segs.append(("sym", bytes(p[i + 2:i + 2 + n]).decode()))
                i += 2 + n + (n % 2)
            elif t & 0xE0 == 0x20:
                kind = {0: "class", 1: "inst", 2: "member", 4: "attr"}[(t >> 2) & 7]
                fmt = t & 3
                if fmt == 0:
                    segs.append((kind, p[i + 1])); i += 2
                elif fmt == 1:
                    segs.append((kind, u(p, i + 2, 2))); i += 4
                else:
                    segs.append((kind, u(p, i + 2, 4))); i += 6
            else:
                self.errors.append("bad segment %x" % t); break
        return segs, mr[2 + 2 * words:]

    def unconnected(self, mr):
        svc = mr[0]
        segs, data = self.parse_path(mr)
        if svc == 0x52 and segs[:2] == [("class", 6), ("inst", 1)]:
            ln = u(data, 2, 2)
            inner = data[4:4 + ln]
            return self.message_router(inner, connected=False)
        if svc in (0x54, 0x5B) and segs[:2] == [("class", 6), ("inst", 1)]:
            large = svc == 0x5B
            if (large and not self.large_fo) or (not large and not self.small_fo):
                return bytes([svc | 0x80, 0, 1, 1]) + le(0x0109, 2)
            ot_cid = 0x71190427
            if large:
                size = u(data, 26, 4) & 0xFFFF
            else:
                size = u(data, 26, 2) & 0x1FF
            self.connections[ot_cid] = size
            return bytes([svc | 0x80, 0, 0, 0]) + le(ot_cid, 4) + data[6:10] + data[10:12] + data[12:14] + data[14:18] + le(0x204001, 4) * 2 + b"\x00\x00"
        if svc == 0x4E and segs[:2] == [("class", 6), ("inst", 1)]:
            self.connections.clear()
            return bytes([0xCE, 0, 0, 0]) + data[2:4] + data[4:6] + data[6:10] + b"\x00\x00"
        return self.message_router(mr, connected=False)

    def message_router(self, mr, connected):
        svc = mr[0]
        segs, data = self.parse_path(mr)
        ok = bytes([svc | 0x80, 0, 0, 0])
        if svc == 0x01 and segs == [("class", 1), ("inst", 1)]:
            return ok + self.identity_body()
        if svc == 0x01 and segs == [("class", 0x64), ("inst", 1)]:
            return ok + le(4, 2) + b"PLCA"
        if svc == 0x55:
            return self.instance_attribute_list(segs, data)
        if svc == 0x03 and segs[0] == ("class", 0x6C):
            t = self.templates[segs[1][1]]
            d = t.definition()
            words = (len(d) + 23 + 3) // 4
            return ok + le(4, 2) + le(4, 2) + le(0, 2) + le(words, 4) + le(5, 2) + le(0, 2) + le(t.size, 4) + le(2, 2) + le(0, 2) + le(len(t.members), 2) + le(1, 2) + le(0, 2) + le(t.handle, 2)
        if svc == 0x4C and segs[0] == ("class", 0x6C):
            t = self.templates[segs[1][1]]
            d = t.definition()
            off = u(data, 0, 4)
            want = u(data, 4, 2)
            avail = d[off:off + want]
            # pad to requested length like a controller does
            avail = avail + bytes(max(0, min(want, ((len(d) + 3) // 4) * 4 - off) - len(avail)))
            if self.tmpl_frag is not None and len(avail) > self.tmpl_frag:
                return bytes([0xCC, 0, 6, 0]) + avail[:self.tmpl_frag]
            return ok + avail
        return bytes([svc | 0x80, 0, 8, 0])

    def instance_attribute_list(self, segs, data):
        if segs[0][0] == "sym":
            syms = self.programs[segs[0][1].split(":", 1)[1]]
            start = segs[2][1]
        else:
            syms = self.symbols
            start = segs[1][1]
        nattr = u(data, 0, 2)
        attrs = [u(data, 2 + 2 * i, 2) for i in range(nattr)]
        todo = [s for s in syms if s.iid >= start]
        out = b""
        count = 0
        status = 0
        for s in todo:
            if self.page_after is not None and count >= self.page_after:
                status = 6
                break
            rec = le(s.iid, 4)
            for a in attrs:
                if a == 1: rec += le(len(s.name), 2) + s.name.encode()
                elif a == 2: rec += le(s.symbol_type, 2)
                elif a in (3, 5): rec += le(0, 4)
                elif a == 6: rec += le(s.sc, 4)
                elif a == 8: rec += le(s.dims[0], 4) + le(s.dims[1], 4) + le(s.dims[2], 4)
                elif a == 10: rec += bytes([s.access])
            out += rec
            count += 1
        return bytes([0xD5, 0, status, 0]) + out
