import os
if os.environ.get("NATIVE") != "1":
    import shim
import logging
logging.disable(logging.CRITICAL)
import pycomm3.cip_driver as cd
from pycomm3 import LogixDriver
from reflogix import *

class FakeSocket:
    target = None
    def __init__(self, timeout=5.0):
        self.t = FakeSocket.target
        self._reply = None
    def connect(self, host, port): pass
    def send(self, msg, timeout=0):
        self._reply = self.t.handle(msg)
        return len(msg)
    def receive(self, timeout=0):
        return self._reply
    def close(self): pass

cd.Socket = FakeSocket
cd.urandom = lambda n: bytes(range(1, n + 1))

def project():
    t1 = Template("Udt1", 0x123, 0xBEEF, 8, [
        ("a", 0xC4, 0, 0),
        ("ZZZZZZZZZZUdt1b", 0xC2, 0, 4),
        ("b0", 0xC1, 0, 4),
        ("b1", 0xC1, 1, 4),
        ("c", 0xC3, 0, 6),
    ])
    syms = [
        Symbol(1, "Alpha", 0x00C4),
        Symbol(2, "Beta", 0x20CA, dims=(4, 0, 0)),
        Symbol(3, "Program:Main", 0x1068),
        Symbol(4, "__sys", 0x00C4),
        Symbol(5, "U", 0x8123),
        Symbol(6, "Map:x", 0x1069),
        Symbol(7, "Task:T", 0x1070),
        Symbol(9, "Gamma", 0x00C3, access=2),
    ]
    progs = {"Main": [Symbol(1, "Local", 0x00C3), Symbol(2, "Routine:R", 0x106D)]}
    return syms, [t1], progs

def upload(page: int, frag: int) -> object:
    """
    pre: 1 <= page <= 9
    pre: 8 <= frag <= 200
    post: _ == "ok"
    """
    syms, tmpls, progs = project()
    FakeSocket.target = Target(syms, tmpls, progs, page_after=page, tmpl_frag=frag)
    d = LogixDriver("10.0.0.1")
    try:
        d.open()
    except Exception as e:
        return "exc:" + type(e).__name__ + ":" + str(e.__cause__)
    if FakeSocket.target.errors:
        return "target:" + FakeSocket.target.errors[0]
    names = sorted(d.tags)
    if names != ["Alpha", "Beta", "Gamma", "Program:Main.Local", "U"]:
        return "names:" + ",".join(names)
    u = d.tags["U"]["data_type"]
    if u["name"] != "Udt1" or u["attributes"] != ["a", "b0", "b1", "c"]:
        return "udt:" + repr(u["attributes"])
    it = u["internal_tags"]
    if (it["a"]["offset"], it["c"]["offset"], it["b1"]["bit"], it["b1"]["offset"]) != (0, 6, 1, 4):
        return "offsets"
    if d.tags["Beta"]["dimensions"] != [4, 0, 0] or d.tags["Beta"]["dim"] != 1 or d.tags["Gamma"]["external_access"] != "Read Only":
        return "attrs"
    if list(d.info["programs"]) != ["Main"] or d.info["programs"]["Main"]["routines"] != ["R"] or list(d.info["tasks"]) != ["T"]:
        return "programs"
    return "ok"
