"""Engine B (bit-vector mode) on the real BitArrayType._encode / _decode."""
import time, z3
import bvsym
from bvsym import *
from pycomm3.cip.data_types import BitArrayType, BYTE, WORD, DWORD, LWORD, DataError
import pycomm3.cip.data_types as dt

W = 72
class BVInterp(Interp):
    def zi(self, v):
        if isinstance(v, SInt): return v.e
        return z3.BitVecVal(int(v), W)
    def binop(self, op, a, b):
        if not is_sym(a) and not is_sym(b): return Interp.binop(self, op, a, b)
        if isinstance(a, list): return Interp.binop(self, op, a, b)
        x, y = self.zi(a), self.zi(b)
        import ast as A
        r = {A.Add: lambda: x + y, A.Sub: lambda: x - y, A.BitOr: lambda: x | y, A.BitAnd: lambda: x & y,
             A.BitXor: lambda: x ^ y, A.LShift: lambda: x << y, A.RShift: lambda: z3.LShR(x, y)}[type(op)]()
        return SInt(r)
    def ite(self, cz, a, b):
        if isinstance(a, (SInt, int)) and isinstance(b, (SInt, int)) and not isinstance(a, bool):
            return SInt(z3.If(cz, self.zi(a), self.zi(b)))
        return Interp.ite(self, cz, a, b)

def check_encode(T):
    n = T.size * 8
    bits = [z3.Bool(f"b{i}") for i in range(n)]
    I = BVInterp()
    res = {}
    def host_encode(interp, guard, out, env, v):
        res["v"] = v
        # little-endian pack model of an unsigned n-bit integer; range side condition
        vz = interp.zi(v)
        out_of_range = z3.UGE(vz, z3.BitVecVal(1 << n, W))
        out.add(z3.And(guard, out_of_range), "raise", DataError("range")); interp.pending.append(out_of_range)
        return [SInt(z3.Extract(8 * i + 7, 8 * i, vz)) for i in range(T.size)]
    I.stubs[T.host_type._encode.__func__] = host_encode
    t0 = time.time()
    out = I.run(BitArrayType._encode.__func__, [T, [SBool(b) for b in bits]], glb=dict(vars(dt)))
    s = z3.Solver()
    # property: exactly one outcome: return bytes whose bit i (LSB first) == bits[i]
    conds = []
    for (g, kind, v) in out.items:
        if kind == "return":
            ok = z3.And(*[(z3.Extract(i % 8, i % 8, v[i // 8].e) == 1) == bits[i] for i in range(n)])
            conds.append(z3.And(g, ok))
    s.add(z3.Not(z3.Or(*conds)))
    r = s.check()
    print(f"{T.__name__}._encode: negated property {r} in {time.time()-t0:.2f}s; outcomes={[k for _,k,_ in out.items]}")

for T in (BYTE, WORD, DWORD, LWORD):
    check_encode(T)

def check_decode(T):
    # case split on bit length L of the host value (bin() model)
    n = T.size * 8
    t0 = time.time(); worst = "unsat"
    for L in range(0, n + 1):
        v = z3.BitVec("v", W)
        I = BVInterp()
        def host_decode(interp, guard, out, env, stream): return SInt(v)
        def bin_model(interp, guard, out, env, val):
            # "0b" + L binary digits, MSB first; L = 0 means value 0 -> "0b0"
            digits = [SBool(z3.Extract(i, i, interp.zi(val)) == 1) for i in reversed(range(max(L, 1)))]
            return ["0", "b"] + [("1", d) for d in digits]     # char proxies: ("1", cond) means char == "1" iff cond
        class Cmp(BVInterp):
            pass
        I.stubs[T.host_type.decode.__func__] = host_decode
        I.stubs[bin] = bin_model
        orig_compare = I.compare
        def compare(op, a, b):
            import ast as A
            if isinstance(a, tuple) and b == "1" and isinstance(op, A.Eq): return a[1]
            return orig_compare(op, a, b)
        I.compare = compare
        out = I.run(BitArrayType._decode.__func__, [T, object()], glb=dict(vars(dt)))
        s = z3.Solver()
        if L == 0: s.add(v == 0)
        else: s.add(z3.ULT(v, z3.BitVecVal(1 << L, W)), z3.UGE(v, z3.BitVecVal(1 << (L - 1), W)))
        conds = []
        for (g, kind, val) in out.items:
            if kind == "return" and isinstance(val, list) and len(val) == n:
                ok = z3.And(*[zbool(val[i]) == (z3.Extract(i, i, v) == 1) for i in range(n)])
                conds.append(z3.And(g, ok))
        s.add(z3.Not(z3.Or(*conds)) if conds else z3.BoolVal(True))
        r = s.check()
        if str(r) != "unsat": worst = f"{r} at L={L}"; break
    print(f"{T.__name__}._decode: {worst} over {n+1} bit-length cases in {time.time()-t0:.2f}s")

for T in (BYTE, WORD, DWORD, LWORD):
    check_decode(T)
