import shim
from pycomm3.cip.data_types import *
from pycomm3.custom_types import StructTag

UDT = StructTag(
    (DINT("a"), 0), (SINT("ZZZZZZZZZZhost"), 4), (INT("c"), 6),
    bit_members={"b0": (4, 0), "b1": (4, 1)}, private_members={"ZZZZZZZZZZhost"}, struct_size=8)

def enc_udt(ab: bytes, cb: bytes, b0: bool, b1: bool) -> bytes:
    """
    pre: len(ab) == 4 and len(cb) == 2
    post: len(_) == 8 and all(_[i] == ab[i] for i in range(4)) and _[4] == (1 if b0 else 0) + (2 if b1 else 0) and _[5] == 0 and _[6] == cb[0] and _[7] == cb[1]
    """
    a = DINT.decode(ab)
    c = INT.decode(cb)
    return UDT.encode({"a": a, "c": c, "b0": b0, "b1": b1})
