"""Engine B on the real Socket.receive: all segmentations into <= K chunks of symbolic length/content."""
import socket, struct, time
import z3
from bvsym import *
from fixedsock import Socket
from pycomm3.exceptions import CommError
import fixedsock as sockmod

K = 6  # max recv calls modelled
chunks = [z3.Const(f"c{i}", BSEQ) for i in range(2 * K + 2)]
calls = {"n": 0}

class RawStub: pass
class SelfStub: pass
selfobj = SelfStub(); selfobj.sock = RawStub()

I = Interp(unroll=K)
def recv_stub(interp, guard, out, env, n):
    cnt = env.get("__recv_n", 0)
    env["__recv_n"] = SInt(zint(cnt) + 1)
    e = chunks[-1]
    for i in reversed(range(len(chunks) - 1)):
        e = z3.If(zint(cnt) == i, chunks[i], e)
    return SBytes(e)
def settimeout_stub(interp, guard, out, env, t): return None
def unpack_from_stub(interp, guard, out, env, fmt, data, off):
    assert fmt == "<H" and off == 2
    s = zbytes(data)
    short = z3.Length(s) < 4
    out.add(z3.And(guard, short), "raise", struct.error("short")); interp.pending.append(short)
    return (SInt(z3.BV2Int(s[2]) + 256 * z3.BV2Int(s[3])),)
selfobj.sock.recv = recv_stub; selfobj.sock.settimeout = settimeout_stub
I.stubs[recv_stub] = recv_stub; I.stubs[settimeout_stub] = settimeout_stub
I.stubs[struct.unpack_from] = unpack_from_stub

t0 = time.time()
out = I.run(Socket.receive, [selfobj, 0], glb=dict(vars(sockmod)))
# environment contract: each recv returns 1..256 bytes
env_ok = z3.And(*[z3.And(z3.Length(c) >= 0, z3.Length(c) <= 256) for c in chunks])
def prefix(k): return chunks[0] if k == 1 else z3.Concat(*chunks[:k])
# frame = first k chunks, k minimal with total >= 24 + len field; header fully in... (no constraint on chunk 0 size!)
frame_k = z3.Int("k")
results = []
for (g, kind, val) in out.items:
    results.append((g, kind, val))
solver = z3.Solver()
solver.add(env_ok, *I.assumptions)
# spec: exists k in 1..K: concat(first k) is exactly one frame (len == 24 + field) -> receive returns it
bad = []
for k in range(1, K + 1):
    fr = prefix(k)
    nonempty = z3.And(*[z3.Length(c) >= 1 for c in chunks[:k]])
    shorter = z3.BoolVal(True) if k == 1 else z3.Or(z3.Length(prefix(k-1)) < 24, z3.BV2Int(prefix(k-1)[2]) + 256 * z3.BV2Int(prefix(k-1)[3]) > z3.Length(prefix(k-1)) - 24)
    is_frame = z3.And(nonempty, shorter, z3.Length(fr) >= 24, z3.BV2Int(fr[2]) + 256 * z3.BV2Int(fr[3]) == z3.Length(fr) - 24)
    # the peer sends exactly one frame split in k chunks: receive must return fr
    ok_k = z3.Or(*[z3.And(g, zbytes(v) == fr) for (g, kind, v) in results if kind == "return"])
    bad.append(z3.And(is_frame, z3.Not(ok_k)))
solver.add(z3.Or(*bad))
r = solver.check()
print("receive: negated property is", r, f"({time.time()-t0:.1f}s)", "outcomes:", [(k) for (_, k, _) in results])
if r == z3.sat:
    m = solver.model()
    print("counterexample chunk lengths:", [m.eval(z3.Length(c)) for c in chunks[:3]])
    for (g, kind, v) in results:
        if z3.is_true(m.eval(g, model_completion=True)): print("  outcome:", kind, v)
