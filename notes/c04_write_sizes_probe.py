from common import *
from pycomm3.packets import WriteTagFragmentedRequestPacket, MultiServiceRequestPacket

def write_sizes(val: bytes, cs: int) -> str:
    """
    pre: 64 <= cs <= 4000
    pre: 1 <= len(val) <= 9000
    pre: not (cs - 10 < len(val) + 14 <= cs)
    post: _ == "ok"
    """
    n = len(val)
    d = make_driver(lambda m: None, cs)
    d._tags = {'A': mk_struct_tag('A', n, 7), 'B': mk_atomic('B', 'DINT', DINT, 8)}
    parsed = d._parse_requested_tags(['A', 'B'], 'w')
    parsed[0]['value'] = val
    parsed[1]['value'] = 5
    reqs = d._write_build_requests(parsed)
    for r in reqs:
        if isinstance(r, WriteTagFragmentedRequestPacket):
            continue
        frame = r.build_request(d._target_cid, d._session, b'_pycomm_', 0)
        item_len = len(frame) - 44
        if item_len > cs:
            return "too big"
    return "ok"
