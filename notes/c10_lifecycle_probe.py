import os
if os.environ.get("NATIVE") != "1":
    import shim
import logging
logging.disable(logging.CRITICAL)
import pycomm3.cip_driver as cd
from pycomm3 import CIPDriver
from pycomm3.exceptions import PycommError
from reflogix import *

class Fault(Exception): pass

class FakeSocket:
    target = None
    fault_at = None
    nio = 0
    def __init__(self, timeout=5.0):
        self.t = FakeSocket.target
        self._reply = None
    def _io(self):
        FakeSocket.nio += 1
        if FakeSocket.fault_at is not None and FakeSocket.nio == FakeSocket.fault_at:
            raise OSError("injected")
    def connect(self, host, port): pass
    def send(self, msg, timeout=0):
        self._io()
        self._reply = self.t.handle(msg)
        return len(msg)
    def receive(self, timeout=0):
        self._io()
        return self._reply
    def close(self): pass

cd.Socket = FakeSocket
cd.urandom = lambda n: bytes(range(1, n + 1))

def lifecycle(op1: int, op2: int, fault: int, large_ok: bool, small_ok: bool) -> str:
    """
    pre: 0 <= op1 <= 3 and 0 <= op2 <= 3
    pre: 0 <= fault <= 12
    post: _ == "ok"
    """
    t = Target([], [], {}, large_fo=large_ok, small_fo=small_ok)
    FakeSocket.target = t
    FakeSocket.fault_at = fault if fault > 0 else None
    FakeSocket.nio = 0
    d = CIPDriver("10.0.0.1")
    for op in (op1, op2):
        try:
            if op == 0:
                d.open()
            elif op == 1:
                d.close()
            elif op == 2:
                d.generic_message(service=0x01, class_code=0x01, instance=1, connected=True)
            else:
                d.generic_message(service=0x01, class_code=0x01, instance=1, connected=False, route_path=False) if d._sock else None
        except PycommError:
            pass
        except Exception as e:
            return "foreign:" + type(e).__name__
        if t.errors:
            return "target:" + t.errors[0]
        if op == 1:
            if d.connected:
                return "connected after close"
            if fault == 0 and (t.sessions or t.connections):
                return "leak"
    return "ok"
