import socket, struct
from pycomm3.exceptions import CommError
HEADER_SIZE = 24
class Socket:
    def receive(self, timeout=0):
        try:
            if timeout != 0:
                self.sock.settimeout(timeout)
            data = b""
            while len(data) < HEADER_SIZE:
                chunk = self.sock.recv(256)
                if not chunk:
                    raise CommError("socket connection broken")
                data += chunk
            data_len = struct.unpack_from("<H", data, 2)[0]
            while len(data) - HEADER_SIZE < data_len:
                chunk = self.sock.recv(256)
                if not chunk:
                    raise CommError("socket connection broken")
                data += chunk
            return data
        except socket.error as err:
            raise CommError("socket connection broken") from err
