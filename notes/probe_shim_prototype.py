"""CrossHair plugin: pure-Python BytesIO so symbolic bytes survive stream reads."""
import io
from crosshair.core import register_patch
from crosshair.tracers import NoTracing

class PyBytesIO:
    def __init__(self, initial=b""):
        self._buf = initial
        self._pos = 0
    def read(self, size=-1):
        buf, pos = self._buf, self._pos
        n = len(buf)
        if size is None or size < 0:
            end = n
        else:
            end = pos + size
            if end > n:
                end = n
        if pos >= n:
            return b""
        self._pos = end
        return buf[pos:end]
    def tell(self):
        return self._pos
    def seek(self, pos, whence=0):
        if whence == 0: self._pos = pos
        elif whence == 1: self._pos += pos
        else: self._pos = len(self._buf) + pos
        return self._pos
    def getvalue(self):
        return self._buf
    def getbuffer(self):
        b = self._buf
        class _V:
            nbytes = len(b)
        return _V()

def _bytesio(initial=b""):
    return PyBytesIO(initial)

register_patch(io.BytesIO, _bytesio)

import reprlib
import pycomm3.cip.data_types as _dt
def _const_repr(obj):
    return "<repr>"
_dt._repr = _const_repr
register_patch(reprlib.repr, _const_repr)

# ---- format model: hex/decimal formatting of symbolic ints without realization
import re as _re
from crosshair import core as _core
from crosshair.libimpl import builtinslib as _bl
from crosshair.libimpl.builtinslib import SymbolicInt, LazyIntSymbolicStr
_orig_format = _core._PATCH_REGISTRATIONS[format]
_HEX_SPEC = _re.compile(r"^(?:0>?)?(\d*)x$")

def _hex_digit_cp(n):
    # n in 0..15 -> codepoint of lowercase hex digit, no forking: 48+n (+39 if n >= 10)
    return 48 + n + 39 * (n // 10)

def _sym_format(obj, format_spec=""):
    with NoTracing():
        is_sym = isinstance(obj, SymbolicInt)
        spec = format_spec if isinstance(format_spec, str) else None
    if is_sym and spec is not None:
        m = _HEX_SPEC.match(spec)
        if m and obj >= 0:
            width = int(m.group(1) or 1)
            # number of hex digits: fork on magnitude (bounded by the value's own range)
            nd = 1
            while obj >= (1 << (4 * nd)):
                nd += 1
            nd = max(nd, width)
            cps = [_hex_digit_cp((obj >> (4 * i)) & 15) for i in reversed(range(nd))]
            with NoTracing():
                return LazyIntSymbolicStr(cps)
        if spec in ("", "d"):
            return obj.__repr__()
    return _orig_format(obj, format_spec)

_core._PATCH_REGISTRATIONS[format] = _sym_format

# ---- float token model: IEEE bit pattern carried opaquely through pack/unpack
import struct as _struct
class F32:
    __slots__ = ("bits",)
    def __init__(self, bits): self.bits = bits
    def __eq__(self, o): return isinstance(o, F32) and self.bits == o.bits
    def __hash__(self): return 0
class F64(F32):
    def __eq__(self, o): return isinstance(o, F64) and self.bits == o.bits

def _m_pack(fmt, *args):
    if fmt in ("<f", ">f", "<d", ">d") and len(args) == 1 and isinstance(args[0], F32):
        n = 4 if fmt[1] == "f" else 8
        if (n == 8) != isinstance(args[0], F64):
            raise _struct.error("float width mismatch (model)")
        return args[0].bits.to_bytes(n, "little" if fmt[0] == "<" else "big")
    return _struct.pack(fmt, *args)

def _m_unpack(fmt, data):
    if fmt in ("<f", ">f", "<d", ">d"):
        n = 4 if fmt[1] == "f" else 8
        if len(data) != n:
            raise _struct.error("unpack requires a buffer of %d bytes" % n)
        bits = int.from_bytes(data, "little" if fmt[0] == "<" else "big")
        return ((F32 if n == 4 else F64)(bits),)
    return _struct.unpack(fmt, data)
_dt.pack = _m_pack
_dt.unpack = _m_unpack

# ---- bin() model
def _sym_bin(v):
    with NoTracing():
        is_sym = isinstance(v, SymbolicInt)
    if not is_sym:
        return bin(v)
    if v < 0:
        return bin(_core.realize(v))
    nd = 1
    while v >= (1 << nd):
        nd += 1
    cps = [48, 98] + [48 + ((v >> i) & 1) for i in reversed(range(nd))]
    with NoTracing():
        return LazyIntSymbolicStr(cps)
_core._PATCH_REGISTRATIONS[bin] = _sym_bin

# ---- bitwise ops with a concrete non-negative constant, without realization
import operator as _ops
import z3 as _z3
from crosshair.tracers import ResumedTracing

def _bits(c):
    i = 0
    while c:
        if c & 1:
            yield i
        c >>= 1
        i += 1

def _bitop_const(op, a, b):
    with NoTracing():
        if isinstance(b, SymbolicInt) and not isinstance(a, SymbolicInt):
            a, b = b, a
        ok = isinstance(a, SymbolicInt) and type(b) is int and b >= 0
        if ok:
            av = a.var
            if op is _ops.and_:
                e = _z3.IntVal(0)
                for i in _bits(b):
                    e = e + ((av / (1 << i)) % 2) * (1 << i)
            elif op is _ops.or_:
                e = av
                for i in _bits(b):
                    e = e + (1 - ((av / (1 << i)) % 2)) * (1 << i)
            else:  # xor
                e = av
                for i in _bits(b):
                    e = e + (1 - 2 * ((av / (1 << i)) % 2)) * (1 << i)
            return SymbolicInt(e)
    return op(_core.realize(a), _core.realize(b))

for _op in (_ops.and_, _ops.or_, _ops.xor):
    _bl._BIN_OPS_SEARCH_ORDER.append((_op, SymbolicInt, int, _bitop_const))
    _bl._BIN_OPS_SEARCH_ORDER.append((_op, int, SymbolicInt, _bitop_const))
_bl._BIN_OPS.clear()

# ---- dict method scans for symbolic keys (C19)
from crosshair.libimpl.builtinslib import AnySymbolicStr
def _is_sym(k):
    with NoTracing():
        return isinstance(k, (AnySymbolicStr, SymbolicInt))

def _dict_getitem(self, key):
    if _is_sym(key):
        for k in list(self.keys()):
            if type(k) is type("") and k == key:
                return self[k]
        raise KeyError(key)
    return dict.__getitem__(self, key)

def _dict_contains(self, key):
    if _is_sym(key):
        for k in list(self.keys()):
            if type(k) is type("") and k == key:
                return True
        return False
    return dict.__contains__(self, key)
register_patch(dict.__getitem__, _dict_getitem)
register_patch(dict.__contains__, _dict_contains)

# ---- ASCII lower model
def _ascii_lower(s):
    with NoTracing():
        sym = isinstance(s, AnySymbolicStr)
    if not sym:
        return str.lower(s)
    cps = []
    for ch in s:
        c = ord(ch)
        cps.append(c + 32 * ((c // 65) - (c // 91)) if True else c)
    with NoTracing():
        return LazyIntSymbolicStr(cps)
def _m_lower(self):
    cps = []
    for ch in self:
        c = ord(ch)
        cps.append(c + 32 * ((c // 65) - (c // 91)))
    with NoTracing():
        return LazyIntSymbolicStr(cps)
_bl.AnySymbolicStr.lower = _m_lower

# ---- bytearray(n) inside pycomm3.custom_types -> CrossHair's symbolic bytearray
from crosshair.libimpl.builtinslib import SymbolicByteArray
import pycomm3.custom_types as _ct
def _sym_bytearray(arg=0):
    if isinstance(arg, int):
        with NoTracing():
            return SymbolicByteArray([0] * arg)
    return bytearray(arg)
_ct.bytearray = _sym_bytearray
