import shim
from pycomm3.cip.services import Services
from pycomm3.cip.object_library import ClassCode

def bit5(v: int) -> bool:
    """
    pre: -2**31 <= v < 2**31
    post: _ == ((v // 32) % 2 == 1)
    """
    return bool(v & 1 << 5)

def or16(v: int) -> int:
    """
    pre: 0 <= v < 256
    post: _ >= v and _ >= 16 and _ - v in (0, 16)
    """
    return v | 0x10

NAME = "read_tag_fragmented"
def casing(m: int) -> object:
    """
    pre: 0 <= m < 2**19
    post: _ == (b"\x52", b"\x52", True)
    """
    s = "".join(chr(ord(c) - 32 * ((m >> i) & 1)) if c.isalpha() else c for i, c in enumerate(NAME))
    return (Services[s], Services.get(s), s in Services)
